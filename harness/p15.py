"""C15 convolution / correlation: delegation structure, kernel bookkeeping, buffer and range polynomials,
boundary-option handling, guarded 2-D access -- structural rules over the instantiated AST."""
import os, json, re
from . import common as C
from .ast import rules as R
from .ir.poly import Poly

LEVEL = "other"
EXPLANATION = ("Static analysis over the instantiated AST: (V1) convolve_* = correlate_* with reverse_kernel, *_cols = *_rows "
               "on transposed_view of BOTH views, for dynamic and fixed kernels (call structure compared up to renaming); (V2) "
               "kernel bookkeeping: left_size == center, right_size == size-center-1, reverse_kernel sets center to right_size "
               "and reverses the coefficients; (V3) in correlate_rows_impl all five boundary_option enumerators are handled, the "
               "row buffer has width (output_*) resp. width+size-1 == width+left+right (extend_*) elements, the correlator ranges "
               "are [buf, buf+width+1-size) at dst+left resp. [buf, buf+width) at dst (polynomial comparison), every write to "
               "the destination other than the correlator's is dominated by option == output_zero, extend_zero pads with the "
               "zero accumulator, extend_constant with the first/last pixel of the row, extend_padded reads "
               "[row_begin-left, row_end+right); (V4) convolve_2d_impl reads the source only under the four-sided bounds test "
               "and writes dst(view_col,view_row). Not decided: the sums themselves and extend_* pixel values.")

DRIVER = '''#include "vf_common.hpp"
#include <boost/gil/image_processing/convolve.hpp>
#include <boost/gil/image_processing/kernel.hpp>
using namespace vf;
void inst(gray8_view_t const& a, gray8_view_t const& b, rgb8_view_t const& c, rgb8_view_t const& d){
  kernel_1d<float> k(3, 1); kernel_1d_fixed<float, 3> kf(1);
  correlate_rows<gray32f_pixel_t>(a, k, b); correlate_cols<gray32f_pixel_t>(a, k, b); convolve_rows<gray32f_pixel_t>(a, k, b); convolve_cols<gray32f_pixel_t>(a, k, b);
  correlate_rows_fixed<gray32f_pixel_t>(a, kf, b); correlate_cols_fixed<gray32f_pixel_t>(a, kf, b); convolve_rows_fixed<gray32f_pixel_t>(a, kf, b); convolve_cols_fixed<gray32f_pixel_t>(a, kf, b);
  correlate_rows<rgb32f_pixel_t>(c, k, d, boundary_option::output_zero);
  detail::convolve_1d<gray32f_pixel_t>(a, k, b);
  view_multiplies_scalar<gray32f_pixel_t>(a, 0.5f, b); view_multiplies_scalar<rgb32f_pixel_t>(c, 0.5f, d);
  detail::kernel_2d<float> k2(3, 1, 1); detail::convolve_2d(a, k2, b); detail::convolve_2d(c, k2, d);
  detail::kernel_2d<float> const& c2 = k2; detail::kernel_2d<float> k3(k2); k3 = k2;
  (void)k2.center_x(); (void)k2.center_y(); (void)c2.center_x(); (void)c2.center_y(); (void)c2.left_size(); (void)c2.right_size(); (void)c2.upper_size(); (void)c2.lower_size();
  detail::kernel_2d_fixed<float, 3> f2(1, 1); detail::kernel_2d_fixed<float, 3> const& cf2 = f2; (void)f2.center_x(); (void)f2.center_y(); (void)cf2.center_x(); (void)cf2.center_y();
  kernel_1d<float> const& ck = k; (void)k.center(); (void)ck.center();
  (void)extend_row(a, 2, boundary_option::extend_zero); (void)extend_col(a, 2, boundary_option::extend_constant); (void)extend_boundary(a, 2, boundary_option::extend_padded);
  (void)extend_boundary(c, 1, boundary_option::extend_constant);
}
void inst2(rgb8_view_t const& c, bgr32f_view_t const& x){ detail::kernel_2d<float> k2(3, 1, 1); detail::convolve_2d(c, k2, x); }
// 2-D kernels: integral taps on 32-bit sources (the product is formed before it reaches the accumulator)
void inst4(gray32_view_t const& a, gray32s_view_t const& s, gray32f_view_t const& f, gray8_view_t const& g){
  detail::kernel_2d<int> ki(3, 0, 1); detail::kernel_2d<float> kf(3, 2, 0); detail::kernel_2d_fixed<float, 3> kx(1, 1);
  detail::convolve_2d(a, ki, f); detail::convolve_2d(s, ki, f); detail::convolve_2d(g, ki, f);
}
// exact integer accumulation wider than the source channel (V10): 32-bit channels, integer kernels, 64-bit accumulators; and every channel functor by itself
void inst3(gray32_view_t const& a, gray32s_view_t const& s, gray32_view_t const& b, gray32s_view_t const& t){
  using acc_t = pixel<std::int64_t, gray_layout_t>;
  kernel_1d<int> k(3, 1); kernel_1d<short> ks(3, 1);
  correlate_rows<acc_t>(a, k, b); correlate_rows<acc_t>(s, k, t); correlate_cols<acc_t>(s, ks, t);
  std::uint32_t u = 5; std::int32_t i = -3; int w = -2;
  (void)channel_plus_t<std::uint32_t, std::int32_t, std::int64_t>()(u, i); (void)channel_minus_t<std::uint32_t, std::int32_t, std::int64_t>()(u, i);
  (void)channel_multiplies_t<std::uint32_t, std::int32_t, std::int64_t>()(u, i); (void)channel_divides_t<std::uint32_t, std::int32_t, std::int64_t>()(u, i);
  (void)channel_plus_scalar_t<std::uint32_t, int, std::int64_t>()(u, w); (void)channel_minus_scalar_t<std::uint32_t, int, std::int64_t>()(u, w);
  (void)channel_multiplies_scalar_t<std::uint32_t, int, std::int64_t>()(u, w); (void)channel_divides_scalar_t<std::uint32_t, int, std::int64_t>()(u, w);
}
'''


def run(rep):
    C.need_tools(C.ASTDUMP)
    wd = C.workdir("C15")
    src = os.path.join(wd, "c15_driver.cpp")
    open(src, "w").write(DRIVER)
    d = C.astdump(src, os.path.join(wd, "c15.json"),
                  ["^boost::gil::(correlate|convolve)_(rows|cols)(_fixed)?$", "^boost::gil::detail::(correlate_rows_impl|convolve_1d|convolve_2d|convolve_2d_impl)$",
                   "^boost::gil::(view_multiplies_scalar|correlate_pixels_n|correlate_pixels_k)$",
                   "^boost::gil::reverse_kernel$", "^boost::gil::detail::kernel_1d_adaptor::(left_size|right_size)$",
                   "^boost::gil::detail::kernel_(1d|2d)_adaptor::(center_x|center_y|center|upper_size|lower_size|kernel_2d_adaptor|operator=)$",
                   "^boost::gil::(extend_row|extend_col|extend_boundary)$", "^boost::gil::detail::extend_row_impl$", "^boost::gil::channel_(plus|minus|multiplies|divides)(_scalar)?_t::operator\\(\\)$", "^boost::gil::detail::physical_channel_index$", "^boost::gil::detail::__nth_channel_view_basic::make$"])
    fns = d["functions"]
    spec = json.load(open(os.path.join(C.SPEC, "c15_convolve.json")))
    rep.units.append("c15_driver.cpp: %d instantiated functions" % len(fns))
    rep.trusted += ["clang front end (instantiated AST)", "spec/c15_convolve.json", "harness/ast/rules.py"]
    W = "include/boost/gil/image_processing/convolve.hpp"
    # ---- V1 delegation
    rep.rule("V1 delegation: convolve = correlate o reverse_kernel; cols = rows on transposed_view of both views (dynamic and fixed)")
    seen = set()
    for f in fns:
        short = f["name"].split("::")[-1]
        if short not in spec["delegation"] or short in seen:
            continue
        seen.add(short)
        rn = R.renamer(f)
        seq = []
        for c, p in R.calls_in(f["body"], lambda n: n.split("::")[-1] in spec["callees"]):
            if any(a.get("k") == "Call" and a["callee"]["name"].split("::")[-1] in spec["callees"] and c2 is not c for c2, _ in [(c, p)] for a in []):
                continue
            nm = c["callee"]["name"].split("::")[-1]
            seq.append(nm + "(" + ",".join(rn(R.key(a)) for a in c["args"]) + ")")
        # keep only outermost calls (arguments that are calls appear inside the outer key already)
        outer = [s for s in seq if not any(s != t and s in t for t in seq)]
        rep.count("obligations:V1")
        want = spec["delegation"][short]
        if outer == want:
            rep.ok("V1-delegation", short, outer)
        else:
            rep.violation("V1-delegation", "V1:" + short, R.fn_where(f), {"calls": outer, "documented": want})
    rep.floor("obligations:V1", 9)
    # ---- V2 kernel bookkeeping
    rep.rule("V2 kernel: left_size()==center_, right_size()==size()-center_-1, reverse_kernel: center()=right_size(), std::reverse(begin,end)")
    done = set()
    for f in fns:
        short = f["name"].split("::")[-1]
        if short in ("left_size", "right_size") and short not in done:
            done.add(short)
            rets = [x for x, _ in R.find(f["body"], lambda x: x.get("k") == "Return")]
            rep.count("obligations:V2")
            p = R.poly_of(rets[0]["e"]) if len(rets) == 1 else None
            want = Poly.atom("center_") if short == "left_size" else Poly.atom("this.size()") - Poly.atom("center_") - Poly.const(1)
            alt = Poly.atom("size()") - Poly.atom("center_") - Poly.const(1)
            if p is not None and (p == want or (short == "right_size" and p == alt)):
                rep.ok("V2-kernel", "kernel_1d_adaptor::" + short, repr(p))
            else:
                rep.violation("V2-kernel", "V2:" + short, R.fn_where(f), {"returns": repr(p), "documented": repr(want)})
        if short == "reverse_kernel" and "reverse_kernel" not in done:
            done.add("reverse_kernel")
            rn = R.renamer(f)
            asg = [rn(R.key(x)) for x, _ in R.find(f["body"], lambda x: x.get("k") in ("Assign",) and x.get("op") == "=")]
            rev = [rn(R.key(c)) for c, _ in R.calls_in(f["body"], lambda n: n == "std::reverse")]
            rets = [rn(R.key(x["e"])) for x, _ in R.find(f["body"], lambda x: x.get("k") == "Return")]
            rep.count("obligations:V2")
            ok = asg == ["(L0.center() = $0.right_size())"] and rev == ["reverse(L0.begin(),L0.end())"] and rets == ["L0"]
            if ok:
                rep.ok("V2-kernel", "reverse_kernel", {"assign": asg, "reverse": rev})
            else:
                rep.violation("V2-kernel", "V2:reverse_kernel", R.fn_where(f), {"assignments": asg, "reverse": rev, "returns": rets})
    rep.floor("obligations:V2", 3)
    kernel_2d_rule(rep, fns)
    ctor_assertions(rep)
    extend_rule(rep, fns)
    result_type_arithmetic(rep, fns)
    rep.rule("V8 convolve_2d (instantiated rgb8 -> bgr32f): the per-channel calls pair the source and destination channels of the same colour "
             "(nth_channel_view counts in memory order: one layout on both sides, or detail::physical_channel_index<own view>(k) on each side)")
    R.channel_pairing(rep, fns, "V8-channel-pairing", ("boost::gil::detail::convolve_2d",), "obligations:V8")
    rep.floor("obligations:V8", 3)
    rep.rule("V9 convolve_2d: every nth_channel_view call (which forms a reference to pixel (0,0)) is dominated by the test that the source view has pixels")
    R.nonempty_guard(rep, fns, "V9-nonempty", ("boost::gil::detail::convolve_2d",), "obligations:V9")
    rep.floor("obligations:V9", 1)
    # ---- V3 correlate_rows_impl
    rep.rule("V3 correlate_rows_impl: options exhaustive; buffer sizes; correlator ranges; destination fills only under output_zero; padding sources")
    n_impl = 0
    for f in fns:
        if not f["name"].endswith("detail::correlate_rows_impl"):
            continue
        n_impl += 1
        if n_impl > 2:
            continue
        prn = R.param_renamer(f)
        inl = {}
        for x, _p in R.find(f["body"], lambda x: x.get("k") == "Decl"):
            for dd in x["decls"]:
                if dd.get("name") in ("width", "height") and dd.get("init") is not None:
                    inl[dd["name"]] = R.key(dd["init"])
        import re as _re
        rn = lambda s_: prn(_re.sub(r"\b(width|height)\b", lambda m: inl.get(m.group(1), m.group(1)), s_))
        locs = R.local_names(f)
        amap = {}
        tag = "correlate_rows_impl"
        # exhaustive options
        used = set()
        for x, p in R.find(f["body"], lambda x: x.get("k") in ("Binary",) and x.get("op") in ("==", "!=")):
            for side in (R.key(x["l"]), R.key(x["r"])):
                if "boundary_option::" in side or side.split("::")[-1] in spec["options"]:
                    used.add(side.split("::")[-1])
        rep.count("obligations:V3")
        if used == set(spec["options"]):
            rep.ok("V3-options", tag + ": all boundary options tested", sorted(used))
        else:
            rep.violation("V3-options", "V3:options", R.fn_where(f), {"tested": sorted(used), "enumerators": spec["options"]})
        # buffers
        bufs = []
        for x, p in R.find(f["body"], lambda x: x.get("k") == "Decl"):
            for dd in x["decls"]:
                if "vector" in (dd.get("type") or "") and dd.get("init") is not None:
                    init = R.strip(dd["init"])
                    args = init.get("args", []) if init.get("k") == "Construct" else []
                    gs = R.guards(p)
                    bufs.append((branch_of(gs, spec), R.poly_of(args[0], rn) if args else None, dd.get("line")))
        for br, want_s in spec["buffer"].items():
            rep.count("obligations:V3")
            got = [b for b in bufs if b[0] == br]
            want = spec_poly(want_s)
            if len(got) == 1 and got[0][1] is not None and (got[0][1] - want).is_const() and (got[0][1] - want).const_value() >= 0:
                rep.ok("V3-buffer", "%s buffer length (%s)" % (tag, br), repr(want))
            else:
                rep.violation("V3-buffer", "V3:buffer:" + br, R.fn_where(f), {"got": [repr(b[1]) for b in got], "documented": repr(want)})
        # correlator calls
        cors_raw = []
        for c, p in R.find(f["body"], lambda x: x.get("k") == "Call" and x.get("op") == "()" and R.key(x["args"][0]) == f["params"][4]["name"]):
            gs = R.guards(p)
            cors_raw.append((branch_of(gs, spec), c["args"][1:], c.get("line")))
        for br, want in spec["correlator"].items():
            rep.count("obligations:V3")
            got = [c for c in cors_raw if c[0] == br]
            ok = False
            if len(got) == 1:
                a = got[0][1]
                ok = R.unify(rn(R.key(a[0])), want["begin"], locs, amap) and (R.poly_of(a[1], rn) - R.poly_of(a[0], rn)) == spec_poly(want["length"]) \
                    and rn(R.key(a[2])) == want["kernel"] and R.unify(rn(R.key(a[3])), want["dst"], locs, amap)
            if ok:
                rep.ok("V3-correlator", "%s correlator range (%s)" % (tag, br), want)
            else:
                rep.violation("V3-correlator", "V3:correlator:" + br, R.fn_where(f), {"got": [[rn(R.key(x)) for x in c[1]] for c in got], "documented": want})
        # the interior is computed exactly when it is non-empty: the only run-time condition (besides the option and the row
        # loop) that dominates the correlator call of the output branch is `documented length >= 1`
        rep.count("obligations:V3")
        for c, p in R.find(f["body"], lambda x: x.get("k") == "Call" and x.get("op") == "()" and R.key(x["args"][0]) == f["params"][4]["name"]):
            gs = R.guards(p)
            if branch_of(gs, spec) != "output":
                continue
            want_len = spec_poly(spec["correlator"]["output"]["length"])
            conds = []
            for op, l, r in gs:
                if "option" in (l + r) or "boundary_option" in (l + r):
                    continue
                lp, rp = R.poly_of_key(l, rn) if hasattr(R, "poly_of_key") else None, None
                conds.append((op, rn(l), rn(r)))
            # normalise each remaining guard to  P >= c  and drop the loop bounds (they mention y)
            norm = []
            for op, l, r in conds:
                if _re.search(r"\by\b", l + " " + r):
                    continue
                norm.append((op, l, r))
            detail = [" ".join(x) for x in norm]
            A, B = "$0.width", "$1.size"
            flat = lambda t: t.replace("(", "").replace(")", "").replace(" ", "")
            rel, other = [], []
            for op, l, r in norm:
                fl, fr = flat(l), flat(r)
                if (A in fl + fr) and (B in fl + fr):
                    rel.append((op, fl, fr))
                else:
                    other.append((op, fl, fr))
            benign = {("!=", B, "1"), ("!=", A, "0"), (">", A, "0"), ("<", "0", A)}      # 1-tap kernel is a plain copy; empty image
            unknown = [x for x in other if x not in benign]
            ok = len(rel) == 1 and rel[0] in ((">=", A, B), ("<=", B, A)) and not unknown
            if unknown and len(rel) == 1 and rel[0] in ((">=", A, B), ("<=", B, A)):
                rep.fail_analysis("V3 interior guard: unrecognised extra condition(s) %s dominate the correlator call" % unknown)
                break
            if ok:
                rep.ok("V3-interior-guard", tag + ": interior computed iff width >= kernel size", detail)
            else:
                rep.violation("V3-interior-guard", "V3:interior guard", R.fn_where(f), {"conditions_dominating_the_correlator_call": detail, "documented": "$0.width() >= $1.size() (interior of length width+1-size is non-empty)",
                                                                               "problem": "the fully covered outputs are skipped (or computed with a negative length) for some widths"})
            break
        # advance of the destination iterator in the output branch
        adv = [rn(R.key(x)) for x, p in R.find(f["body"], lambda x: x.get("k") in ("CompoundAssign", "Call") and x.get("op") == "+=" and R.key(x.get("l") or x["args"][0]) == amap.get("it_dst", "it_dst"))]
        rep.count("obligations:V3")
        if len(adv) == len(spec["output_dst_advance"]) and all(R.unify(g, w, locs, amap) or poly_eq_str(g, w) for g, w in zip(adv, spec["output_dst_advance"])):
            rep.ok("V3-correlator", tag + " destination iterator advances by left_size then by width+1-size", adv)
        else:
            rep.violation("V3-correlator", "V3:correlator:destination advance", R.fn_where(f), {"got": adv, "documented": spec["output_dst_advance"]})
        # destination writes other than the correlator
        dstn = f["params"][2]["name"]
        bad = []
        nfill = 0
        # destination iterators: the locals initialised from the destination view's row (role, not name)
        dst_its = {dd["name"] for dn, _ in R.find(f["body"], lambda x: x.get("k") == "Decl") for dd in dn["decls"]
                   if dd.get("name") and dd.get("init") is not None and re.match(r"%s\.(row_begin|begin|x_at|row_end)\(" % re.escape(dstn), R.key(dd["init"]))}
        optn = f["params"][3]["name"] if len(f["params"]) > 3 else "option"
        for c, p in R.calls_in(f["body"], lambda n: n in ("std::fill_n", "boost::gil::fill_pixels")):
            tgt = R.key(c["args"][0])
            if tgt not in dst_its and tgt != dstn and not tgt.startswith(dstn):
                continue
            nfill += 1
            gs = R.guards(p)
            if not any(op == "==" and "output_zero" in (l + r) and optn in (l, r) for op, l, r in gs):
                bad.append({"call": R.key(c)[:120], "line": c.get("line")})
        rep.count("obligations:V3")
        if bad or nfill < 3:
            rep.violation("V3-output-fill", "V3:destination fill outside output_zero", R.fn_where(f), {"unguarded": bad, "fills_found": nfill})
        else:
            rep.ok("V3-output-fill", "%s: %d destination fills, all under option == output_zero" % (tag, nfill), nfill)
        # padding of the extend_* branches
        pads = {}
        for c, p in R.calls_in(f["body"], lambda n: n in ("std::fill_n", "boost::gil::detail::assign_pixels", "boost::gil::assign_pixels")):
            gs = R.guards(p)
            br = option_of(gs, spec)
            if br and br.startswith("extend"):
                pads.setdefault(br, []).append(c["callee"]["name"].split("::")[-1] + "(" + ",".join(rn(R.key(a)) for a in c["args"]) + ")")
        fillers = {}
        for c, p in R.find(f["body"], lambda x: x.get("k") == "Call" and x.get("op") == "()" and "pixel_assigns_t" in R.key(x["args"][0])):
            gs = R.guards(p)
            if option_of(gs, spec) == "extend_constant":
                fillers.setdefault("extend_constant", []).append(rn(R.key(c["args"][1])))
        for br, want in spec["padding"].items():
            rep.count("obligations:V3")
            got = pads.get(br, [])
            if len(got) == len(want) and all(R.unify(g, w, locs, amap) for g, w in zip(got, want)):
                rep.ok("V3-padding", "%s padding (%s)" % (tag, br), got)
            else:
                rep.violation("V3-padding", "V3:padding:" + br, R.fn_where(f), {"got": got, "documented": want})
        rep.count("obligations:V3")
        fg = fillers.get("extend_constant") or []
        if len(fg) == 2 and all(R.unify(g, w, locs, amap) for g, w in zip(fg, spec["constant_fillers"])):
            rep.ok("V3-padding", tag + " extend_constant fillers", fillers.get("extend_constant"))
        else:
            rep.violation("V3-padding", "V3:padding:extend_constant fillers", R.fn_where(f), {"got": fillers.get("extend_constant"), "documented": spec["constant_fillers"]})
    rep.analysed["correlate_rows_impl_instantiations"] = n_impl
    if n_impl < 2:
        rep.fail_analysis("correlate_rows_impl instantiated %d times (expected dynamic and fixed)" % n_impl)
    # ---- V5 arithmetic in the accumulator type
    accumulator_rule(rep, fns)
    # ---- V4 convolve_2d_impl
    rep.rule("V4 convolve_2d_impl: source read only under 0<=r<src.height() && 0<=c<src.width(); one destination write per position")
    for f in fns:
        if not f["name"].endswith("detail::convolve_2d_impl"):
            continue
        rep.count("obligations:V4")
        f0 = f
        f = R.canonize(f0)          # $0 source, $1 destination; #0 view row, #1 view column
        sv, dv = "$0", "$1"
        vl = [l for l in R.loops_of(f["body"]) if l.get("k") == "For"]
        rowv, colv = (R.for_shape(vl[0])[0], R.for_shape(vl[1])[0]) if len(vl) >= 2 and R.counts_up(vl[0], "$0.height()") and R.counts_up(vl[1], "$0.width()") else ("?", "?")
        reads = R.find(f["body"], lambda x: x.get("k") == "Call" and x.get("op") == "()" and len(x.get("args", [])) == 3 and R.key(x["args"][0]) == sv)
        bad = []
        for c, p in reads:
            xk, yk = R.key(c["args"][1]), R.key(c["args"][2])
            gs = R.guards(p)
            need = [("<", xk, sv + ".width()"), (">=", xk, "0"), ("<", yk, sv + ".height()"), (">=", yk, "0")]
            miss = [n for n in need if not R.has_atom(gs, *n)]
            if miss:
                bad.append({"access": R.key(c), "missing_guards": miss})
        wr = [R.key(c.get("l") or c["args"][0]) for c, p in R.find(f["body"], lambda x: x.get("k") in ("Assign", "Call") and x.get("op") == "=" and R.key(x.get("l") or x["args"][0]).startswith(dv + "("))]
        # V4c: the column of the source sample is offset by the kernel's centre column, the row by its centre row
        axis = []
        defs = {}
        for k_, x_, _ in R.effects(f["body"]):
            m_ = re.match(r"\((%\d+) = ", k_)
            if m_:
                defs.setdefault(m_.group(1), []).append(k_)
        for c, p in reads:
            xk, yk = R.key(c["args"][1]), R.key(c["args"][2])
            for nm_, want_, other_ in ((xk, "center_x()", "center_y()"), (yk, "center_y()", "center_x()")):
                for d_ in defs.get(nm_, []):
                    if other_ in d_ and want_ not in d_:
                        axis.append({"coordinate": "column" if want_ == "center_x()" else "row", "defined as": d_[:120]})
        if axis:
            rep.count("obligations:V4c")
            rep.violation("V4c-centre-axis", "V4c:convolve_2d_impl:centre axis", R.fn_where(f0), {"wrong axis": axis[:2],
                          "example": "2x2 kernel with centre (y=0, x=1): the source window is shifted horizontally by center_y - center_x"})
        elif reads:
            rep.count("obligations:V4c")
            rep.ok("V4c-centre-axis", "V4c:convolve_2d_impl:centre axis " + f["full"][-16:], "column offset by center_x, row offset by center_y")
        if bad or not reads or wr != ["%s(%s,%s)" % (dv, colv, rowv)]:
            rep.violation("V4-2d", "V4:convolve_2d_impl", R.fn_where(f0), {"unguarded_reads": bad, "reads": len(reads), "writes": wr, "view loops (row, column)": [rowv, colv]})
        else:
            rep.ok("V4-2d", "convolve_2d_impl " + f["full"][-20:], {"reads": len(reads), "writes": wr})
    rep.floor("obligations:V4", 1)
    # ---- V4b the product of a source channel and a kernel tap
    from .ast.rules import _TYRANGE, _cty, type_range
    rep.rule("V4b convolve_2d_impl: the product source channel * kernel tap that is added to the accumulator is computed in a floating-point type, or in an integral type "
             "that holds the product of the operand types' ranges (uint32 * int is computed in unsigned: 5u * -1 = 4294967291; int32 * int overflows)")
    seen4 = set()
    for f in fns:
        if not f["name"].endswith("detail::convolve_2d_impl") or f.get("body") is None:
            continue
        for ca, _ in R.find(f["body"], lambda x: x.get("k") == "CompoundAssign" and x.get("op") == "+="):
            prods = [b for b, _ in R.find(ca.get("r"), lambda x: x.get("k") == "Binary" and x.get("op") == "*")]
            for b in prods:
                ty = _cty(b.get("ctype") or b.get("type"))
                lt, rt = type_range(b["l"]), type_range(b["r"])
                lty, rty = _cty((R.strip(b["l"]) or {}).get("ctype") or (R.strip(b["l"]) or {}).get("type")), _cty((R.strip(b["r"]) or {}).get("ctype") or (R.strip(b["r"]) or {}).get("type"))
                key = "V4b:convolve_2d_impl:product computed in %s" % ty
                if key in seen4:
                    continue
                seen4.add(key)
                rep.count("obligations:V4b")
                if ty in ("float", "double", "long double"):
                    rep.ok("V4b-product-type", key, "floating point")
                elif ty in _TYRANGE and lt and rt:
                    cands = [lt[0] * rt[0], lt[0] * rt[1], lt[1] * rt[0], lt[1] * rt[1]]
                    lo, hi = min(cands), max(cands)
                    if lo < _TYRANGE[ty][0] or hi > _TYRANGE[ty][1]:
                        rep.violation("V4b-product-type", key, R.fn_where(f), {"operand ranges": [list(lt), list(rt)], "product range": [lo, hi], "computed in": ty,
                                                                              "example": "gray32 source 5, kernel_2d<int> tap -1: 5u * -1 is 4294967291 in unsigned, the float accumulator receives 4.29e9 instead of -5"})
                    else:
                        rep.ok("V4b-product-type", key, {"product range": [lo, hi]})
                else:
                    rep.incon("V4b-product-type", key, {"unrecognised": "product type %s" % ty})
    rep.floor("obligations:V4b", 1)
    rep.floor("obligations:V3", 14)


def branch_of(gs, spec):
    o = option_of(gs, spec)
    if o is None:
        return None
    return "output" if o.startswith("output") else "extend"


def option_of(gs, spec):
    """which boundary-option branch the guards put us in: 'output' family or a specific extend_* option"""
    pos = [x for op, l, r in gs if op == "==" for x in (l, r) if x.split("::")[-1] in spec["options"] and "option" in (l + r)]
    neg = [x for op, l, r in gs if op == "!=" for x in (l, r) if x.split("::")[-1] in spec["options"] and "option" in (l + r)]
    pos = [p.split("::")[-1] for p in pos]
    neg = [p.split("::")[-1] for p in neg]
    if pos:
        return pos[-1]
    if any(g[0] == "opaque" and "output_ignore" in g[1] and "output_zero" in g[1] for g in gs):
        # (ignore || zero) as an opaque positive atom: the output family ; its negation (!(..)) gives separate != atoms
        if not any(g[1].startswith("!") for g in gs if g[0] == "opaque"):
            return "output"
    if "output_ignore" in neg and "output_zero" in neg:
        rest = [o for o in spec["options"] if o.startswith("extend") and o not in neg]
        return rest[0] if len(rest) == 1 else "extend"
    return None


def spec_poly(s):
    A = Poly.atom
    return eval(s, {"A": A, "C": Poly.const})


def poly_eq_str(g, w):
    return False


def first_targ(full, name):
    i = full.find(name + "<")
    if i < 0:
        return None
    j = i + len(name) + 1
    depth, k = 1, j
    while k < len(full) and depth:
        ch = full[k]
        if ch == "<":
            depth += 1
        elif ch == ">":
            depth -= 1
        elif ch == "," and depth == 1:
            break
        k += 1
    return full[j:k].strip()


def _cond_eval(n, val):
    """boolean AST under an assignment of its comparison atoms (val: normalised (op,l,r) -> bool)"""
    n = R.strip(n)
    while n is not None and n.get("k") == "Paren":
        n = R.strip(n["e"])
    if n.get("k") == "Binary" and n.get("op") in ("&&", "||"):
        a, b = _cond_eval(n["l"], val), _cond_eval(n["r"], val)
        return (a and b) if n["op"] == "&&" else (a or b)
    if n.get("k") == "Unary" and n.get("op") == "!":
        return not _cond_eval(n["e"], val)
    if n.get("k") == "Binary" and n.get("op") in ("<", "<=", ">", ">=", "==", "!="):
        return val(n["op"], R.key(n["l"]), R.key(n["r"]))
    raise KeyError(R.key(n))


def extend_rule(rep, fns):
    """V7: extend_row_impl writes result row i from the documented source for each of the three regions of i, per policy;
    extend_row/extend_col/extend_boundary size the result and delegate as documented"""
    rep.rule("V7b extend_row_impl: the copies of an edge row (row 0 below, row h-1 above the source) are dominated by source.height() > 0: an empty source has no edge row")
    rep.rule("V7 extend_row_impl: for every result row i in [0, result.height()): c <= i < c+h -> source row i-c (all policies); extend_constant: i < c -> row 0, "
             "i >= c+h -> row h-1; extend_zero: the other rows are filled with the zero pixel over the full width; extend_padded: row i of the source shifted up by c. "
             "The path condition of every row copy is evaluated on the three regions of i (below, inside, above) as a boolean function. "
             "extend_row: result (w, h+2c); extend_col: result (w+2c, h), both views rotated90cw; extend_boundary: extend_row(extend_col) or the (w+2c, h+2c) window at (-c,-c)")
    impl = [f for f in fns if f["name"] == "boost::gil::detail::extend_row_impl"]
    done = set()
    for f0 in impl:
        tag = f0["params"][0]["type"][:80]
        done.add(tag)
        rep.count("obligations:V7")
        f = R.canonize(f0)          # $0 source, $1 result, $2 count, $3 policy; loop variables #k; named values inlined
        sv, rv, c_, opt = "$0", "$1", "$2", "$3"
        prob = []
        H = "%s.height()" % sv
        # sign classes of (i - c, i - (c+h)) that are consistent with h >= 0; lo: i < c, mid: c <= i < c+h, hi: i >= c+h
        REG = [(-1, -1), (0, -1), (0, 0), (1, -1), (1, 0), (1, 1)]
        NAME = lambda rg: "lo" if rg[0] < 0 else ("mid" if rg[1] < 0 else "hi")
        unknown = []

        def val_in(region, iv):
            def val(op, l, r):
                flip = {"<": ">", ">": "<", "<=": ">=", ">=": "<=", "==": "==", "!=": "!="}
                if l != iv and r == iv:
                    op, l, r = flip[op], r, l
                if (l, r) == (iv, c_):
                    sg = region[0]
                elif (l, r) in ((iv, "(%s + %s)" % (c_, H)), (iv, "(%s + %s)" % (H, c_))):
                    sg = region[1]
                else:
                    raise KeyError("%s %s %s" % (l, op, r))
                return {"<": sg < 0, "<=": sg <= 0, ">": sg > 0, ">=": sg >= 0, "==": sg == 0, "!=": sg != 0}[op]
            return val
        copies = []
        edge_unguarded = []
        for c, pth in R.calls_in(f["body"], lambda n: n.endswith("assign_pixels") or n in ("std::fill_n", "std::fill")):
            opts = [(op, l, r) for op, l, r in R.guards(pth) if opt in (l, r)]
            loops = [a for a, fld, _ in pth if a.get("k") == "For" and fld == "body"]
            if len(loops) != 1:
                unknown.append("%s outside a single row loop" % R.key(c)[:60])
                continue
            lp = loops[0]
            iv = R.for_shape(lp)[0]
            if not R.counts_up(lp, "%s.height()" % rv):
                prob.append("row loop of %s does not run over [0, result.height())" % R.key(c)[:40])
            li = [i for i, z in enumerate(pth) if z[0] is lp][0]
            inner_ifs = [(a, fld) for a, fld, _ in pth[li + 1:] if a.get("k") == "If" and fld in ("then", "else")]
            regions, exact = set(), True
            try:
                hit = []
                for rg in REG:
                    ok = True
                    for a, fld in inner_ifs:
                        v = _cond_eval(a["cond"], val_in(rg, iv))
                        ok = ok and (v if fld == "then" else not v)
                    if ok:
                        hit.append(rg)
                regions = {NAME(rg) for rg in hit}
                exact = all((rg in hit) == (NAME(rg) in regions) for rg in REG)
            except KeyError as e:
                unknown.append("condition %s not over i, c, c+h" % e)
                continue
            if not exact:
                prob.append("%s runs for the rows %s of (sign(i-c), sign(i-c-h)): not a union of the regions below / inside / above" % (R.key(c)[:50], hit))
            policy = [(l if r == opt else r).split("::")[-1] for op, l, r in opts if op == "=="]
            copies.append((policy[-1] if policy else "?", R.key(c).replace(iv, "#"), frozenset(regions)))
            # V7b: below and above the source there is an edge row to repeat only if the source has rows at all (the regions are consistent with h >= 0, not with h >= 1)
            if regions and regions <= {"lo", "hi"} and (c.get("callee") or {}).get("name", "").endswith("assign_pixels") and sv + ".row_begin(" in R.key(c):
                gs = R.guards(pth)
                has_rows = any((op in ("!=", ">") and l == H and r == "0") or (op == ">=" and l == H and r == "1") or (op == "<" and l == "0" and r == H) for op, l, r in gs)
                if not has_rows:
                    edge_unguarded.append(R.key(c).replace(iv, "#")[:90])
        WIN = "subimage_view(%s,0,(-%s),%s.width(),(%s + (2 * %s)))" % (sv, c_, sv, H, c_)
        want = {
            "extend_constant": {("assign_pixels(%s.row_begin((# - %s)),%s.row_end((# - %s)),%s.row_begin(#))" % (sv, c_, sv, c_, rv), frozenset(["mid"])),
                                ("assign_pixels(%s.row_begin(0),%s.row_end(0),%s.row_begin(#))" % (sv, sv, rv), frozenset(["lo"])),
                                ("assign_pixels(%s.row_begin((%s - 1)),%s.row_end((%s - 1)),%s.row_begin(#))" % (sv, H, sv, H, rv), frozenset(["hi"]))},
            "extend_zero": {("assign_pixels(%s.row_begin((# - %s)),%s.row_end((# - %s)),%s.row_begin(#))" % (sv, c_, sv, c_, rv), frozenset(["mid"])),
                            ("fill_n(%s.row_begin(#),%s.width(),{Z})" % (rv, rv), frozenset(["lo", "hi"]))},
            "extend_padded": {("assign_pixels(%s.row_begin(#),%s.row_end(#),%s.row_begin(#))" % (WIN, WIN, rv), frozenset(["lo", "mid", "hi"]))},
        }
        got = {}
        for pol, k, rg in copies:
            got.setdefault(pol, set()).add((k, rg))
        zenv = None
        for pol, w in want.items():
            gk = got.get(pol, set())
            env = R.bind([k for k, _ in gk], [t for t, _ in w])
            if env is None or {(R.fill_in(t, env), r) for t, r in w} != gk:
                prob.append("%s: row copies %s, documented %s" % (pol, sorted((k, sorted(rg)) for k, rg in gk), sorted((t, sorted(r)) for t, r in w)))
            elif "Z" in env:
                zenv = env["Z"]
        if set(got) - set(want):
            unknown.append("copies under an unknown policy: %s" % sorted(set(got) - set(want)))
        zero = [R.key(c) for c, _ in R.calls_in(f["body"], lambda n: "pixel_zeros_t" in n)]
        if zenv is not None and zero != ["pixel_zeros_t{}(%s)" % zenv]:
            prob.append("the fill value %s is not the zero pixel: %s" % (zenv, zero))
        key = "V7:extend_row_impl<%s>" % ("rotated" if "step" in tag or "transposed" in tag.lower() else "plain")
        rep.count("obligations:V7b")
        kb = key.replace("V7:", "V7b:") + ":edge rows exist"
        if edge_unguarded:
            rep.violation("V7b-edge-row", kb, R.fn_where(f0), {"copies of an edge row not dominated by source.height() > 0": edge_unguarded,
                          "example": "extend_row(subimage_view(v, 0, 2, 3, 0), 1, boundary_option::extend_constant): row 0 of a view without rows is read (heap-buffer-overflow READ); "
                                     "extend_col of a 0 x h view: the same through the rotated view, division by the zero row stride"})
        else:
            rep.ok("V7b-edge-row", kb, "every copy of row 0 / row h-1 is reached only with h > 0")
        if prob:
            rep.violation("V7-extend", key, R.fn_where(f0), {"problems": prob + unknown})
        elif unknown:
            rep.incon("V7-extend", key, {"unrecognised": unknown})
        else:
            rep.ok("V7-extend", key, {"copies": sorted((pol, sorted(rg)) for pol, k, rg in copies)})
    # the three public functions (canonical form: $0 view, $1 count, $2 policy; result image %k)
    for f0 in fns:
        short = f0["name"].split("::")[-1]
        if f0["name"] not in ("boost::gil::extend_row", "boost::gil::extend_col", "boost::gil::extend_boundary") or (short, f0["params"][0]["type"][:60]) in done:
            continue
        done.add((short, f0["params"][0]["type"][:60]))
        f = R.canonize(f0)
        facts = ["%s := %s" % (dd["name"], R.key(dd["init"])) for dn, _ in R.find(f["body"], lambda x: x.get("k") == "Decl") for dd in dn["decls"] if dd.get("name") and dd.get("init") is not None]
        calls = [R.key(c) for c, _ in R.calls_in(f["body"], lambda n: n.split("::")[-1] in ("extend_row_impl", "extend_row", "extend_col", "assign_pixels"))]
        rets = [R.key(x["e"]) for x, _ in R.find(f["body"], lambda x: x.get("k") == "Return")]
        rep.count("obligations:V7")
        det = {"decls": facts, "calls": calls, "returns": rets}
        IMG = "{I} := image{%s,0,allocator{}}"
        if short == "extend_row":
            env = R.bind(facts + calls, [IMG % "$0.width(),($0.height() + (2 * $1))", "{V} := view({I})", "extend_row_impl($0,{V},$1,$2)"]) or \
                R.bind(facts + calls, [IMG % "$0.width(),($0.height() + (2 * $1))", "extend_row_impl($0,view({I}),$1,$2)"])
            ok = env is not None and rets == [env["I"]]
        elif short == "extend_col":
            env = R.bind(facts + calls, [IMG % "($0.width() + (2 * $1)),$0.height()", "{V} := rotated90cw_view(view({I}))", "extend_row_impl(rotated90cw_view($0),{V},$1,$2)"]) or \
                R.bind(facts + calls, [IMG % "($0.width() + (2 * $1)),$0.height()", "extend_row_impl(rotated90cw_view($0),rotated90cw_view(view({I})),$1,$2)"])
            ok = env is not None and rets == [env["I"]]
        else:
            WIN = "subimage_view($0,(-$1),(-$1),($0.width() + (2 * $1)),($0.height() + (2 * $1)))"
            env = R.bind(facts + calls, [IMG % "($0.width() + (2 * $1)),($0.height() + (2 * $1))", "{V} := view({I})", "assign_pixels(%s.row_begin(#0),%s.row_end(#0),{V}.row_begin(#0))" % (WIN, WIN),
                                         "{A} := extend_col($0,$1,$2)"])
            gpad, lp_ok = False, False
            for c, pth in R.calls_in(f["body"], lambda n: n.endswith("assign_pixels")):
                gpad = any(op == "==" and "extend_padded" in l + r for op, l, r in R.guards(pth))
                lps = [a for a, fld, _ in pth if a.get("k") == "For" and fld == "body"]
                lp_ok = env is not None and len(lps) == 1 and R.counts_up(lps[0], "%s.height()" % env["V"])
            ok = env is not None and gpad and lp_ok and sorted(rets) == sorted([env["I"], "extend_row(view(%s),$1,$2)" % env["A"]])
        k = "V7:%s" % short
        if ok:
            rep.ok("V7-extend", k, calls)
        else:
            rep.violation("V7-extend", k, R.fn_where(f0), det)
    rep.floor("obligations:V7", 5)
    rep.floor("obligations:V7b", 2)


def ctor_assertions(rep):
    """V6c: an assertion inside a constructor that reads a data member this constructor leaves at its default member initialiser tests a constant, not the object
    being built (kernel_2d_adaptor(center_y, center_x) asserted center < size() while square_size was still 0; kernel_2d_fixed assigns it afterwards)."""
    rep.rule("V6c kernel constructors, assertions enabled: no assertion of a constructor reads (directly or through a member function of the class) a data member that the "
             "constructor's initialiser list does not set (the member still holds its default initialiser there: the condition is a constant, and for "
             "`center < size()` with size() == 0 it fails for every argument -- kernel_2d_fixed<T,N>(cy, cx) aborts in every build without NDEBUG)")
    wd = C.workdir("C15assert")
    src = os.path.join(wd, "ctor.cpp")
    open(src, "w").write('#include "vf_common.hpp"\n#include <boost/gil/image_processing/kernel.hpp>\nusing namespace vf;\n'
                         'void inst(float const* v){ detail::kernel_2d_fixed<float, 3> a(1, 1); detail::kernel_2d_fixed<float, 3> b(v, 0, 0); detail::kernel_2d<float> c(3, 1, 1); detail::kernel_2d<float> d(v, 9, 1, 1);\n'
                         '  kernel_1d<float> e(3, 1); kernel_1d_fixed<float, 3> f(1); (void)a; (void)b; (void)c; (void)d; (void)e; (void)f; }\n')
    d = C.astdump(src, os.path.join(wd, "ctor.json"), ["^boost::gil::detail::kernel_(1d|2d)_adaptor::(kernel_(1d|2d)_adaptor|size)$", "^boost::gil::detail::kernel_2d_fixed::kernel_2d_fixed$",
                                                      "^boost::gil::kernel_(1d|2d)(_fixed)?::kernel_(1d|2d)(_fixed)?$"], defs=["-DBOOSTORG_GIL_VERIF"])     # no NDEBUG
    fns = d["functions"]
    by_id = {f.get("id"): f for f in fns}

    def members_read(n, depth=0):
        out = set()
        for x, _ in R.find(n, lambda y: y.get("k") == "Member" and y.get("name")):
            out.add(x["name"])
        if depth < 2:
            for c, _ in R.find(n, lambda y: y.get("k") == "Call" and isinstance(y.get("callee"), dict) and y["callee"].get("id") in by_id and y["callee"].get("method")):
                h = by_id[c["callee"]["id"]]
                if h.get("body") is not None and "kernel_" in h["name"]:
                    out |= members_read(h["body"], depth + 1)
        return out
    for f in fns:
        if f.get("body") is None or not re.search(r"kernel_(1d|2d)_adaptor::kernel_(1d|2d)_adaptor$", f["name"]) or (len(f["params"]) == 1 and "&" in f["params"][0]["type"]):
            continue
        asserts = [x for x, _ in R.find(f["body"], lambda x: x.get("k") == "Cond" and "__assert_fail" in R.key(x.get("else") or {}))]
        if not asserts:
            continue
        written = set()
        for i in f.get("inits") or []:
            if i.get("written") and i.get("member"):
                written.add(i["member"])
        fields = {i.get("member") for i in f.get("inits") or [] if i.get("member")}
        rep.count("obligations:V6c")
        key = "V6c:%s(%s)" % (re.sub(r"<.*", "", f["name"].split("::")[-1]), ", ".join(p_["name"] for p_ in f["params"]))
        key += ":" + ("array" if "std::array" in f.get("cls", "") else "vector")
        stale = []
        for a in asserts:
            rd = members_read(a["cond"])
            st = sorted(m for m in rd if m in fields and m not in written)
            if st:
                stale.append({"assertion": R.key(a["cond"])[:100], "reads members left at their default initialiser": st})
        if stale:
            rep.violation("V6c-ctor-assert", key, R.fn_where(f), {"assertions": stale, "example": "detail::kernel_2d_fixed<float, 3> k(1, 1) aborts: center_.y < size() with size() == square_size == 0"})
        else:
            rep.ok("V6c-ctor-assert", key, {"assertions": len(asserts), "members set by the initialiser list": sorted(written)})
    rep.floor("obligations:V6c", 2)


def kernel_2d_rule(rep, fns):
    """V6: the 2-D kernel's centre bookkeeping, const and non-const overloads alike"""
    rep.rule("V6 kernel_2d_adaptor: center_x()/left_size() read center_.x and center_y()/upper_size() read center_.y in every overload (const and non-const); "
             "right_size()/lower_size() == size() - centre - 1; constructors store (center_x, center_y) into (center_.x, center_.y); copy and assignment keep x and y apart; "
             "kernel_1d_adaptor::center() reads center_ in both overloads")
    sz = Poly.atom("this.size()")
    want = {"center_x": Poly.atom("center_.x"), "left_size": Poly.atom("center_.x"), "center_y": Poly.atom("center_.y"), "upper_size": Poly.atom("center_.y"),
            "right_size": sz - Poly.atom("center_.x") - Poly.const(1), "lower_size": sz - Poly.atom("center_.y") - Poly.const(1), "center": Poly.atom("center_")}
    seen = set()
    for f in fns:
        cls = f.get("cls", "")
        short = f["name"].split("::")[-1]
        m = re.match(r"boost::gil::detail::kernel_(1d|2d)_adaptor<(.*)>$", cls)
        if not m:
            continue
        core = "fixed" if "std::array" in m.group(2) else "dynamic"
        if m.group(1) == "2d" and short in want and short != "center" or (m.group(1) == "1d" and short == "center"):
            tag = (m.group(1), core, short, bool(f.get("const")))
            if tag in seen:
                continue
            seen.add(tag)
            rets = [x for x, _ in R.find(f["body"], lambda x: x.get("k") == "Return")]
            rep.count("obligations:V6")
            p = R.poly_of(rets[0]["e"], lambda a: a.replace("this.center_", "center_").replace("size()", "this.size()").replace("this.this.", "this.")) if len(rets) == 1 else None
            k = "V6:kernel_%s_adaptor<%s>::%s()%s" % (m.group(1), core, short, " const" if f.get("const") else "")
            if p is not None and p == want[short]:
                rep.ok("V6-kernel-2d", k, repr(p))
            else:
                rep.violation("V6-kernel-2d", k, R.fn_where(f), {"returns": repr(p), "documented": repr(want[short])})
        if m.group(1) == "2d" and short == "kernel_2d_adaptor" and f.get("inits") is not None:
            ci = [R.key(i["init"]) for i in f["inits"] if i.get("member") == "center_"]
            pn = [q["name"] for q in f["params"]]
            rep.count("obligations:V6")
            if pn == ["other"]:
                w, k = "point{other.center_.x,other.center_.y}", "V6:kernel_2d_adaptor<%s>::copy constructor" % core
            else:
                w, k = "point{center_x,center_y}", "V6:kernel_2d_adaptor<%s>::constructor(%s)" % (core, ",".join(pn))
            if ci == [w] and (pn == ["other"] or pn[-2:] == ["center_y", "center_x"]):
                rep.ok("V6-kernel-2d", k, ci)
            else:
                rep.violation("V6-kernel-2d", k, R.fn_where(f), {"center_ initialised with": ci, "expected": w, "parameters": pn})
        if m.group(1) == "2d" and short == "operator=":
            asg = sorted(R.key(x) for x, _ in R.find(f["body"], lambda x: x.get("k") == "Assign"))
            rep.count("obligations:V6")
            k = "V6:kernel_2d_adaptor<%s>::operator=" % core
            if asg == sorted(["(center_.y = other.center_.y)", "(center_.x = other.center_.x)", "(square_size = other.square_size)"]):
                rep.ok("V6-kernel-2d", k, asg)
            else:
                rep.violation("V6-kernel-2d", k, R.fn_where(f), {"assignments": asg})
    rep.floor("obligations:V6", 14)


def accumulator_rule(rep, fns):
    """V5: products and sums are formed in PixelAccum, and only the final assignment converts to the destination"""
    rep.rule("V5 in view_multiplies_scalar (the 1-tap path), correlate_pixels_n and correlate_pixels_k every pixel_multiplies_scalar_t / pixel_plus_t has the "
             "function's PixelAccum template argument as result type and the result is stored with pixel_assigns_t<PixelAccum, destination reference>")
    seen = {}
    for f in fns:
        short = f["name"].split("::")[-1]
        if short not in ("view_multiplies_scalar", "correlate_pixels_n", "correlate_pixels_k"):
            continue
        targs = []
        acc = first_targ(f["full"], short)
        if short == "correlate_pixels_k":
            # <Size, PixelAccum, ...>
            rest = f["full"][f["full"].find(short + "<") + len(short) + 1:]
            acc = first_targ("X<" + rest.split(",", 1)[1], "X") if "," in rest else None
        if not acc:
            continue
        uses = []
        for x, _ in R.find(f["body"], lambda x: x.get("k") in ("Construct", "InitList") and re.search(r"pixel_(multiplies_scalar|plus|assigns)_t<", x.get("ccls", "") or "")):
            uses.append(x.get("ccls"))
        prob = []
        for u in uses:
            nm = re.search(r"(pixel_\w+_t)<", u).group(1)
            args = []
            inner = u[u.find(nm) + len(nm) + 1:-1]
            depth, cur = 0, ""
            for ch in inner:
                if ch == "<":
                    depth += 1
                elif ch == ">":
                    depth -= 1
                if ch == "," and depth == 0:
                    args.append(cur.strip()); cur = ""
                else:
                    cur += ch
            args.append(cur.strip())
            if nm in ("pixel_multiplies_scalar_t", "pixel_plus_t") and args[-1] != acc:
                prob.append("%s computes in %s, not in the accumulator" % (nm, args[-1][:70]))
            if nm == "pixel_assigns_t" and args[0] != acc:
                prob.append("pixel_assigns_t converts from %s, not from the accumulator" % args[0][:70])
        key = "V5:%s<%s>" % (short, re.sub(r"boost::(gil|mp11)::", "", acc)[:40])
        if not uses:
            continue
        if key not in seen or (not seen[key][0] and prob):
            seen[key] = (prob, R.fn_where(f), len(uses))
    for key, (prob, where, n) in sorted(seen.items()):
        rep.count("obligations:V5")
        if prob:
            rep.violation("V5-accumulator", key, where, {"problems": sorted(set(prob)), "problem": "coefficients and partial sums are converted to a narrower type before the arithmetic (e.g. a 0.75 kernel coefficient becomes 0 in an 8-bit destination)"})
        else:
            rep.ok("V5-accumulator", key, "%d functor uses, all in the accumulator type" % n)
    rep.floor("obligations:V5", 3)


def result_type_arithmetic(rep, fns):
    """V10: the channel functors take the type the arithmetic is to be carried out in as a template parameter (ChannelResult: the accumulator's channel). An operation that
    is first performed in the promoted type of its operands and converted afterwards has already wrapped when the accumulator is wider than that type."""
    from .ast.rules import type_range, _TYRANGE, _cty
    rep.rule("V10 channel_{plus,minus,multiplies,divides}[_scalar]_t::operator(): no + - * is performed in an integral type narrower than ChannelResult and converted to "
             "ChannelResult afterwards when the interval of the operation -- from the canonical types of its operands -- leaves that narrower type (both operands are converted first); "
             "decided on instantiations with 32-bit channels and a 64-bit result. Witness: the extreme operands")
    RANK = {"char": 8, "signed char": 8, "unsigned char": 8, "short": 16, "unsigned short": 16, "int": 32, "unsigned int": 32, "long": 64, "unsigned long": 64, "long long": 64, "unsigned long long": 64}
    seen = set()
    for f in fns:
        m = re.match(r"boost::gil::(channel_[a-z_]+_t)::operator\(\)$", f["name"])
        if not m or f.get("body") is None:
            continue
        res = _cty(f.get("ret") or "")
        full = f.get("full", "")
        key = "V10:%s" % m.group(1)
        wide = [x for x, _ in R.find(f["body"], lambda x: x.get("k") in ("ImplicitCast", "ExplicitCast") and x.get("from_c") is not None)]
        inst = re.sub(r"boost::gil::|std::", "", full.split("::operator")[0])[:100]
        bad = []
        nops = 0
        for x in wide:
            frm, to = _cty(x["from_c"]), _cty(x["to_c"])
            e = x["e"]
            while isinstance(e, dict) and e.get("k") == "Paren":
                e = e["e"]
            if not (isinstance(e, dict) and e.get("k") == "Binary" and e.get("op") in ("+", "-", "*")):
                continue
            nops += 1
            if frm in RANK and ((to in RANK and RANK[to] > RANK[frm]) or to in ("float", "double", "long double")):
                r = type_range(e)
                lim = _TYRANGE[frm]
                if r is None or r[0] < lim[0] or r[1] > lim[1]:
                    bad.append({"operation": R.key(e)[:80], "performed in": frm, "converted to": to, "interval": r, "instantiation": inst})
        if (key, bool(bad)) in seen or (not bad and key in {k for k, _ in seen}):
            continue
        seen.add((key, bool(bad)))
        rep.count("obligations:V10")
        if bad:
            rep.violation("V10-result-type", key, R.fn_where(f), {"late conversions": bad[:3], "example": "gray32 source, kernel {-1,0,1}, int64 accumulator: 7u * -1 is 4294967289 in unsigned int, the accumulator gets that instead of -7"})
        else:
            rep.ok("V10-result-type", key, "operands are converted to the result type before the operation (%s)" % inst)
    rep.floor("obligations:V10", 8)
