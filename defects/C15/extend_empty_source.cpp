// C15 / V7b: extend_row / extend_col / extend_boundary with boundary_option::extend_constant repeated row 0 and row height()-1 of the
// source without asking whether the source has rows: a 3x0 view at the end of its storage is read past the block (ASan), a 0x2 view goes
// through the rotated view and divides by its zero row stride.
// (pointer-overflow is switched off: rotating the view of an EMPTY result image offsets a null pointer, a separate, harmless matter.)
// Build (without -DNDEBUG the unrepaired tree stops at the assertion in row_end instead): g++ -std=c++14 -DNDEBUG -fsanitize=address,undefined -fno-sanitize=pointer-overflow -fno-sanitize-recover=all -I /repo/include extend_empty_source.cpp && ./a.out
#include <boost/gil.hpp>
#include <cstdio>
namespace gil = boost::gil;
int main()
{
    gil::gray8_image_t img(3, 2);
    auto empty = gil::subimage_view(gil::view(img), 0, 2, 3, 0);                          // 3x0 view at the end of the storage
    auto r = gil::extend_row(empty, 1, gil::boundary_option::extend_constant);
    unsigned char dummy[1] = {0};
    auto none = gil::interleaved_view(0, 2, (gil::gray8_pixel_t*)dummy, 0);               // 0x2 view
    auto c = gil::extend_col(none, 1, gil::boundary_option::extend_constant);
    auto b = gil::extend_boundary(empty, 1, gil::boundary_option::extend_constant);
    std::printf("%ldx%ld %ldx%ld %ldx%ld\n", (long)r.width(), (long)r.height(), (long)c.width(), (long)c.height(), (long)b.width(), (long)b.height());
    return 0;
}
