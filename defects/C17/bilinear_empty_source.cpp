// C17 replay: bilinear_sampler on an EMPTY source view reports a point with floor(p) == -1 as inside and reads a pixel that is not part of the view
// g++ -std=c++14 -I/repo/include bilinear_empty_source.cpp && ./a.out
#include <boost/gil.hpp>
#include <boost/gil/extension/numeric/sampler.hpp>
#include <cstdio>
using namespace boost::gil;
int main()
{
    gray8_image_t img(3, 3); fill_pixels(view(img), gray8_pixel_t(200));
    auto e = subimage_view(const_view(img), 1, 1, 0, 1);      // 0 wide, 1 high
    gray8_pixel_t r(7);
    bool in = sample(bilinear_sampler(), e, point<double>(-0.5, 0.0), r);
    std::printf("empty view: sample reports %s, result %d (expected: outside, result untouched 7)\n", in ? "inside" : "outside", (int)r[0]);
    return in ? 1 : 0;
}
