// C02 replay: view transformations that change the x step rebuild a dereference adaptor with a default constructed function
// object: the channel index of nth_channel_view over a non-basic view is lost
// g++ -std=c++14 -I/repo/include deref_state.cpp && ./a.out
#include <boost/gil.hpp>
#include <cstdio>
using namespace boost::gil;
int main()
{
    rgb8_image_t img(2, 1);
    view(img)(0, 0) = rgb8_pixel_t(10, 20, 30); view(img)(1, 0) = rgb8_pixel_t(40, 50, 60);
    auto ch1 = nth_channel_view(color_converted_view<bgr8_pixel_t>(const_view(img)), 1);   // channel 1 of bgr = green
    auto fl = flipped_left_right_view(ch1);
    std::printf("channel view: %d %d; flipped left-right: %d %d (expected 50 20)\n", int(ch1(0, 0)[0]), int(ch1(1, 0)[0]), int(fl(0, 0)[0]), int(fl(1, 0)[0]));
    return (fl(0, 0)[0] == 50 && fl(1, 0)[0] == 20) ? 0 : 1;
}
