"""C07 channel_multiply / channel_invert: abstract interpretation of the inlined IR per channel model."""
import os
from fractions import Fraction as Fr
from . import common as C
from .chanmodels import models
from .ir.num import NumInterp, Unsupported
from .p06 import inner_fn, in_range, norm_ret, accept_inconclusive

LEVEL = "proof"
EXPLANATION = ("Static analysis: the inlined LLVM IR of channel_multiply and channel_invert for every provided channel "
               "model is abstractly interpreted (interval, monotonicity, affine form with a product symbol). Decided: no "
               "wrap / lossy narrowing / out-of-range float->int, result inside the channel range, channel_invert == "
               "max - x + min exactly (hence involution), multiply within one unit of a*b/max, symmetric in its arguments "
               "(the result is a function of the product symbol only), monotone in each argument, minimum annihilates "
               "(constant propagation). Not decided: exactness of the maximum as identity (the div255 bound is 0.502).")


def gen_driver(chans, path):
    L = ['#include <boost/gil.hpp>', 'using namespace boost::gil;', 'extern "C" {']
    for c in chans:
        L.append('%s w_mul_%s(%s a, %s b){ return (%s)channel_multiply(%s, %s); }' % (c.raw, c.tag, c.raw, c.raw, c.raw, c.make("a"), c.make("b")))
        L.append('%s w_inv_%s(%s x){ return (%s)channel_invert(%s); }' % (c.raw, c.tag, c.raw, c.raw, c.make("x")))
        L.append('%s w_inv2_%s(%s x){ return (%s)channel_invert(channel_invert(%s)); }' % (c.raw, c.tag, c.raw, c.raw, c.make("x")))
    L.append('}')
    open(path, "w").write("\n".join(L) + "\n")


def events(rep, it, what):
    seen = set()
    for ev in it.final_events():
        fnname, where = inner_fn(ev)
        key = "%s:%s:%s" % (what, ev.kind, fnname)
        if (key, ev.status, ev.detail) in seen:
            continue
        seen.add((key, ev.status, ev.detail))
        if ev.status == "proved":
            rep.ok("R1-" + ev.kind, key, ev.detail)
        elif ev.status == "refuted":
            rep.violation("R1-" + ev.kind, key, where, {"detail": ev.detail, "witness": ev.witness})
        else:
            rep.incon("R1-" + ev.kind, key, ev.detail + " at " + where)


def run(rep):
    C.need_tools(C.IRDUMP)
    wd = C.workdir("C07")
    chans = models(rep.tier)
    src = os.path.join(wd, "c07_driver.cpp")
    gen_driver(chans, src)
    bc = C.emit_ir(src, os.path.join(wd, "c07.bc"))
    dump = C.irdump(bc, os.path.join(wd, "c07.json"))
    fns = {f["name"]: f for f in dump["functions"]}
    rep.units.append("generated driver: channel_multiply/channel_invert over %d channel models" % len(chans))
    rep.trusted += ["clang 14 front end and LLVM inliner/SROA/mem2reg", "transfer functions of harness/ir/num.py",
                    "documented channel ranges in harness/chanmodels.py"]
    rep.assumptions += ["arguments lie in the channel's documented range"]
    rep.rule("R1 every narrowing/fp->int/add/sub/mul in the inlined code is lossless; divisors non-zero")
    rep.rule("R2 result inside the channel range")
    rep.rule("R3 channel_invert(x) has affine form -x + (max+min) with zero error; invert(invert(x)) has form x")
    rep.rule("R4 |channel_multiply(a,b) - (a-min)(b-min)/(max-min) - min| < 1 unit (integral) or < 2^-20 (float)")
    rep.rule("R5 channel_multiply is a function of the symmetric product symbol only (commutative), monotone in each argument")
    rep.rule("R6 channel_multiply(a, min) == min by constant propagation")
    rep.rule("R7 channel_multiply(max,max)==max, (max,min)==min, (min,max)==min by constant propagation")
    for c in chans:
        rep.count("models")
        T = c.cxx
        # ---- invert
        for nm, want_c, want_e in (("w_inv_" + c.tag, Fr(-1), Fr(c.hi) + Fr(c.lo)), ("w_inv2_" + c.tag, Fr(1), Fr(0))):
            what = "channel_invert<%s>%s" % (T, "^2" if "inv2" in nm else "")
            try:
                it = NumInterp(fns[nm], {"a0": in_range(c)})
                ret = norm_ret(it, it.run(), c)
            except (Unsupported, KeyError) as e:
                rep.fail_analysis("%s: %s" % (what, e))
                continue
            events(rep, it, what)
            if ret is None or ret.top:
                rep.incon("R2-range", what + ":range", "unknown")
            elif ret.lo >= c.lo and ret.hi <= c.hi:
                rep.ok("R2-range", what + ":range", "[%s,%s]" % (ret.lo, ret.hi))
            elif (ret.hi > c.hi and ret.hi_w) or (ret.lo < c.lo and ret.lo_w):
                rep.violation("R2-range", what + ":range", "channel_algorithm.hpp", {"result": [str(ret.lo), str(ret.hi)]})
            else:
                rep.incon("R2-range", what + ":range", "[%s,%s]" % (ret.lo, ret.hi))
            key = what + ":form"
            if ret is not None and ret.aff is not None:
                tol = Fr(0) if c.integral else Fr(1, 1 << 20)
                if ret.aff.get("a0", Fr(0)) == want_c and set(ret.aff) <= {"a0"} and abs(ret.elo - want_e) <= tol and abs(ret.ehi - want_e) <= tol:
                    rep.ok("R3-invert-form", key, "%s*x + [%s,%s]" % (want_c, ret.elo, ret.ehi))
                else:
                    rep.violation("R3-invert-form", key, "include/boost/gil/channel_algorithm.hpp (channel_invert)",
                                  {"expected": "%s*x + %s" % (want_c, want_e), "got": "%s + [%s,%s]" % ({k: str(v) for k, v in ret.aff.items()}, ret.elo, ret.ehi)})
            else:
                rep.incon("R3-invert-form", key, "no affine form")
        # ---- multiply
        what = "channel_multiply<%s>" % T
        try:
            it = NumInterp(fns["w_mul_" + c.tag], {"a0": in_range(c), "a1": in_range(c)})
            ret = norm_ret(it, it.run(), c)
        except (Unsupported, KeyError) as e:
            rep.fail_analysis("%s: %s" % (what, e))
            continue
        events(rep, it, what)
        if ret is None or ret.top:
            rep.incon("R2-range", what + ":range", "unknown")
        elif ret.lo >= c.lo and ret.hi <= c.hi:
            rep.ok("R2-range", what + ":range", "[%s,%s]" % (ret.lo, ret.hi))
        elif (ret.hi > c.hi and ret.hi_w) or (ret.lo < c.lo and ret.lo_w):
            rep.violation("R2-range", what + ":range", "channel_algorithm.hpp", {"result": [str(ret.lo), str(ret.hi)], "witness": ret.hi_w if ret.hi > c.hi else ret.lo_w})
        else:
            rep.incon("R2-range", what + ":range", "[%s,%s]" % (ret.lo, ret.hi))
        # monotone
        for a in ("a0", "a1"):
            if ret is not None and ret.mono.get(a) in ("+", "="):
                rep.ok("R5-monotone", what + ":monotone:" + a, ret.mono.get(a))
            else:
                rep.incon("R5-monotone", what + ":monotone:" + a, "not established")
        # form: result = k*P + lin + e with P the product symbol. For signed channels the shift to unsigned
        # makes the form k*(a+o)(b+o) - o; expand (a+o)(b+o) = ab + o a + o b + o^2.
        key = what + ":form"
        if ret is not None and ret.aff is not None:
            rng = Fr(c.hi) - Fr(c.lo)
            o = -Fr(c.lo)
            want = {"a0*a1": 1 / rng}
            if o != 0:
                want["a0"] = o / rng
                want["a1"] = o / rng
            wconst = o * o / rng - o
            # error = sum (got-want)*sym range + e - wconst
            lo = ret.elo - wconst
            hi = ret.ehi - wconst
            ok = True
            for k in set(want) | set(ret.aff):
                dcoef = ret.aff.get(k, Fr(0)) - want.get(k, Fr(0))
                if k == "a0*a1":
                    cands = [Fr(x) * Fr(y) for x in (c.lo, c.hi) for y in (c.lo, c.hi)]
                    r = (min(cands), max(cands))
                    if c.lo < 0:
                        r = (min(r[0], Fr(0)), r[1])
                elif k in ("a0", "a1"):
                    r = (Fr(c.lo), Fr(c.hi))
                else:
                    ok = False
                    break
                lo += min(dcoef * r[0], dcoef * r[1])
                hi += max(dcoef * r[0], dcoef * r[1])
            sym = ret.aff.get("a0", Fr(0)) == ret.aff.get("a1", Fr(0))
            tol = Fr(1) + Fr(1, 1 << 16) if c.integral else Fr(1, 1 << 20)
            if ok and -tol < lo and hi < tol:
                rep.ok("R4-mul-error", key, "error in [%s,%s]" % (float(lo), float(hi)))
            else:
                rep.incon("R4-mul-error", key, "error interval [%s,%s]" % (float(lo) if ok else "?", float(hi) if ok else "?"))
            if ok and sym:
                rep.ok("R5-symmetric", what + ":symmetric", "form %s" % {k: float(v) for k, v in ret.aff.items()})
            else:
                rep.incon("R5-symmetric", what + ":symmetric", "form %s" % {k: float(v) for k, v in ret.aff.items()})
        else:
            rep.incon("R4-mul-error", key, "no affine form")
            rep.incon("R5-symmetric", what + ":symmetric", "no affine form")
        # annihilator
        for a, other in (("a0", "a1"), ("a1", "a0")):
            key = what + ":annihilator:" + a
            try:
                it2 = NumInterp(fns["w_mul_" + c.tag], {a: (c.kind, c.bits, c.lo, c.lo), other: in_range(c)})
                r = norm_ret(it2, it2.run(), c)
            except Unsupported as e:
                rep.incon("R6-annihilator", key, str(e))
                continue
            if r is not None and not r.top and r.is_const() and r.lo == c.lo:
                rep.ok("R6-annihilator", key, "== %s" % c.lo)
            elif r is not None and not r.top and r.is_const():
                rep.violation("R6-annihilator", key, "channel_algorithm.hpp", {"got": str(r.lo), "expected": str(c.lo)})
            else:
                rep.incon("R6-annihilator", key, "result %r" % (r,))
        # corners: necessary conditions of "max is the identity" at the documented end points
        for x, y, want in ((c.hi, c.hi, c.hi), (c.hi, c.lo, c.lo), (c.lo, c.hi, c.lo)):
            key = what + ":corner(%s,%s)" % ("max" if x == c.hi else "min", "max" if y == c.hi else "min")
            try:
                it2 = NumInterp(fns["w_mul_" + c.tag], {"a0": (c.kind, c.bits, x, x), "a1": (c.kind, c.bits, y, y)})
                r = norm_ret(it2, it2.run(), c)
            except Unsupported as e:
                rep.incon("R7-corner", key, str(e))
                continue
            if r is not None and not r.top and r.is_const() and r.lo == want:
                rep.ok("R7-corner", key, "== %s" % want)
            elif r is not None and not r.top and r.is_const():
                rep.violation("R7-corner", key, "include/boost/gil/channel_algorithm.hpp (channel_multiplier_unsigned)",
                              {"inputs": [str(x), str(y)], "got": str(r.lo), "expected": str(want)})
            else:
                rep.incon("R7-corner", key, "result %r" % (r,))
    rep.floor("models", len(chans))
    accept_inconclusive(rep, "c07_inconclusive.json")
