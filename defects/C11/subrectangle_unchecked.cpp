// C11 / R10: the region of image_read_settings (top left corner and dimensions) was never compared with the dimensions in the file:
// the readers index their row buffers with it. A 12-byte 1x1 pgm read with the region (1,0)+(4000,1) copied 4000 bytes out of a
// 1-byte row buffer (ASan: heap-buffer-overflow READ); the same for bmp, targa, png, jpeg, tiff.
// Build: g++ -std=c++14 -fsanitize=address -I /repo/include subrectangle_unchecked.cpp && ./a.out
#include <boost/gil.hpp>
#include <boost/gil/extension/io/pnm.hpp>
#include <cstdio>
#include <sstream>
using namespace boost::gil;
int main()
{
    std::istringstream in(std::string("P5\n1 1\n255\n\x07", 12), std::ios::binary);
    gray8_image_t img;
    try
    {
        read_image(in, img, image_read_settings<pnm_tag>(point_t(1, 0), point_t(4000, 1)));
        std::printf("read %ldx%ld\n", (long)img.width(), (long)img.height());
        return 1;
    }
    catch (std::exception const& e)
    {
        std::printf("rejected: %s\n", e.what());
    }
    return 0;
}
