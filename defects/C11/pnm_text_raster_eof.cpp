// C11 / R6c: the text rasters (P1-P3) of the pnm reader returned silently when the input ended, or held a non-digit, before a row was
// complete: "P2 2 2 255 / 1 2" was accepted and the second row of the image stayed whatever it was (uninitialised memory for read_image).
// Build: g++ -std=c++14 -I /repo/include pnm_text_raster_eof.cpp && ./a.out
#include <boost/gil.hpp>
#include <boost/gil/extension/io/pnm.hpp>
#include <cstdio>
#include <sstream>
using namespace boost::gil;
int main()
{
    std::istringstream in("P2\n2 2\n255\n1 2\n");
    gray8_image_t img(2, 2, gray8_pixel_t(77));
    try
    {
        read_view(in, view(img), pnm_tag());
        std::printf("accepted: %d %d %d %d\n", (int)view(img)(0, 0)[0], (int)view(img)(1, 0)[0], (int)view(img)(0, 1)[0], (int)view(img)(1, 1)[0]);
        return 1;
    }
    catch (std::exception const& e)
    {
        std::printf("rejected: %s\n", e.what());
    }
    return 0;
}
