// C12 W5b: library-backed writers instantiated for views whose memory order differs from the colour-space order
#include "vf_common.hpp"
#include <boost/gil/extension/io/png.hpp>
#include <boost/gil/extension/io/jpeg.hpp>
#include <boost/gil/extension/io/tiff.hpp>
using namespace vf;
template <class Tag, class Img> void wr(Img& img, Tag tag){ std::string name("f"); write_view(name, const_view(img), tag); read_image(name, img, tag); }
void inst(){
  bgr8_image_t a; bgra8_image_t b; argb8_image_t c; bgr16_image_t d;
  wr(a, png_tag()); wr(b, png_tag()); wr(c, png_tag()); wr(d, png_tag());
  wr(a, jpeg_tag());
  wr(a, tiff_tag()); wr(b, tiff_tag()); wr(d, tiff_tag());
}
