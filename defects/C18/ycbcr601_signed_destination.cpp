// C18 replay (adjacent to the statement, which quantifies rgb8): ycbcr_601 -> rgb with a signed 8 bit destination stores the 0..255 level with a plain cast
// g++ -std=c++14 -I/repo/include ycbcr601_signed_destination.cpp && ./a.out
#include <boost/gil.hpp>
#include <boost/gil/extension/toolbox/color_spaces/ycbcr.hpp>
#include <cstdio>
namespace gil = boost::gil;
int main()
{
    gil::rgb8_pixel_t white(255, 255, 255);
    gil::ycbcr_601_8_pixel_t y; gil::color_convert(white, y);
    gil::rgb8_pixel_t u; gil::color_convert(y, u);
    gil::rgb8s_pixel_t s; gil::color_convert(y, s);
    gil::rgb8s_pixel_t want; gil::color_convert(u, want);          // the same colour in the signed depth
    std::printf("ycbcr601 of white -> rgb8 (%d,%d,%d), -> rgb8s (%d,%d,%d), expected (%d,%d,%d)\n", u[0], u[1], u[2], s[0], s[1], s[2], want[0], want[1], want[2]);
    return s == want ? 0 : 1;
}
