// an 8-bit BMP that declares 2 palette entries but uses index 200: the palette vector has 2 elements, _palette[200] reads past it.
// mode 1: 16-bit BMP with BI_BITFIELDS masks wider than 8 bits: `<< (8 - width)` shifts by a negative amount (UBSan).
#include <boost/gil.hpp>
#include <boost/gil/extension/io/bmp.hpp>
#include <sstream>
#include <iostream>
using namespace boost::gil;
static void u16(std::string& s, unsigned v){ s += (char)(v & 255); s += (char)(v >> 8); }
static void u32(std::string& s, unsigned v){ u16(s, v & 0xFFFF); u16(s, v >> 16); }
int main(int argc, char** argv){
  int mode = atoi(argv[1]); std::string s;
  if (mode == 0) {
    u16(s, 0x4D42); u32(s, 0); u32(s, 0); u32(s, 54 + 2*4);
    u32(s, 40); u32(s, 4); u32(s, 1); u16(s, 1); u16(s, 8); u32(s, 0); u32(s, 0); u32(s, 0); u32(s, 0); u32(s, 2 /*colors*/); u32(s, 0);
    u32(s, 0x00102030); u32(s, 0x00405060);
    s += (char)200; s += (char)1; s += (char)0; s += (char)255;
  } else {
    u16(s, 0x4D42); u32(s, 0); u32(s, 0); u32(s, 54 + 12);
    u32(s, 40); u32(s, 2); u32(s, 1); u16(s, 1); u16(s, 16); u32(s, 3 /*bitfields*/); u32(s, 0); u32(s, 0); u32(s, 0); u32(s, 0); u32(s, 0);
    u32(s, 0xFFC0); u32(s, 0x003F); u32(s, 0x0000);      // 10-bit red, 6-bit green, empty blue mask
    u16(s, 0xFFFF); u16(s, 0x1234);
  }
  std::istringstream in(s, std::ios::binary);
  try { rgb8_image_t img; read_and_convert_image(in, img, bmp_tag()); std::cout << "returned normally\n"; return 0; }
  catch (std::exception& e) { std::cout << "exception: " << e.what() << "\n"; return 0; }
}
