"""The channel models the library provides (typedefs.hpp, channel.hpp), with their documented ranges.
Used by C06/C07 to generate wrapper drivers and as the oracle for ranges."""
from fractions import Fraction as Fr


class Chan:
    def __init__(self, tag, cxx, raw, kind, bits, lo, hi, signed=False, integral=True):
        self.tag, self.cxx, self.raw, self.kind, self.bits = tag, cxx, raw, kind, bits
        self.lo, self.hi, self.signed, self.integral = lo, hi, signed, integral

    @property
    def levels(self):
        return self.hi - self.lo + 1 if self.integral else None

    def make(self, expr):
        """C++ expression building a channel value of this model from the raw expression"""
        return "%s(%s)" % (self.cxx, expr)


def builtin():
    out = []
    for b in (8, 16, 32):
        out.append(Chan("u%d" % b, "uint%d_t" % b, "uint%d_t" % b, "int", b, 0, (1 << b) - 1))
    for b in (8, 16, 32):
        out.append(Chan("s%d" % b, "int%d_t" % b, "int%d_t" % b, "int", b, -(1 << (b - 1)), (1 << (b - 1)) - 1, signed=True))
    out.append(Chan("f32", "float32_t", "float", "float", 32, 0.0, 1.0, integral=False))
    return out


def packed(widths):
    out = []
    for n in widths:
        raw_bits = 8 if n <= 8 else (16 if n <= 16 else 32)
        out.append(Chan("p%d" % n, "packed_channel_value<%d>" % n, "uint%d_t" % raw_bits, "int", raw_bits, 0, (1 << n) - 1))
    return out


def models(tier):
    if tier == "thorough":
        return builtin() + packed(range(1, 17))
    return builtin() + packed((1, 2, 3, 5, 6, 8, 11, 16))


def linear(src, dst, x):
    """exact linear rescale of x from src range to dst range (Fraction)"""
    return Fr(dst.lo) + (Fr(x) - Fr(src.lo)) * (Fr(dst.hi) - Fr(dst.lo)) / (Fr(src.hi) - Fr(src.lo))
