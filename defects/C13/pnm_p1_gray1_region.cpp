// C13 / S4d: the gray1 overload of pnm reader::copy_data ignored the left edge of the requested region (and ran over the destination's
// width): "P1 3 1 / 0 1 0" read with the region (1,0)+(2,1) into gray1 delivered columns 0,1 instead of columns 1,2.
// Build: g++ -std=c++14 -I /repo/include pnm_p1_gray1_region.cpp && ./a.out
#include <boost/gil.hpp>
#include <boost/gil/extension/io/pnm.hpp>
#include <cstdio>
#include <sstream>
using namespace boost::gil;
int main()
{
    std::string file("P1\n3 1\n0 1 0\n");           // as gray1: 1 0 1
    std::istringstream a(file);
    gray1_image_t g;
    read_and_convert_image(a, g, image_read_settings<pnm_tag>(point_t(1, 0), point_t(2, 1)));
    int p0 = at_c<0>(view(g)(0, 0)), p1 = at_c<0>(view(g)(1, 0));
    std::printf("columns 1,2 of (1 0 1): got %d %d, expected 0 1\n", p0, p1);
    return !(p0 == 0 && p1 == 1);
}
