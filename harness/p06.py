"""C06 channel_convert: range, lossless narrowing, end points, monotonicity, linear-rescale error,
round trip and identity -- decided by abstract interpretation (harness/ir/num.py) of the inlined
converter for every ordered pair of provided channel models."""
import os, json
from fractions import Fraction as Fr
from . import common as C
from .chanmodels import models, linear
from .ir.num import NumInterp, Unsupported, AV

LEVEL = "proof"
EXPLANATION = ("Static analysis: for every ordered pair of channel models the inlined LLVM IR of "
               "channel_convert<D>(S) is abstractly interpreted (interval with attained bounds, monotonicity, "
               "affine form with error interval, constant propagation of the two end points). A violation is "
               "reported only when an attained bound refutes an obligation (a concrete witness input is given) "
               "or when an exact end-point/identity obligation evaluates to a different constant. "
               "Not decided: float32-precision accuracy of 32-bit/float pairs beyond range, end points and "
               "monotonicity; round trip of non-divisible pairs.")


def inner_fn(ev):
    d = ev.inst.get("dbg") or []
    for x in d:
        if x["file"].startswith(C.REPO):
            return (x.get("fn") or "?").split("<")[0], "%s:%d" % (C.repo_rel(x["file"]), x["line"])
    return (d[0].get("fn") if d else "?"), (("%s:%d" % (d[0]["file"], d[0]["line"])) if d else "?")


def gen_driver(chans, path):
    L = ['#include <boost/gil.hpp>', 'using namespace boost::gil;', 'extern "C" {']
    for s in chans:
        for d in chans:
            L.append('%s w_cv_%s_%s(%s x){ return (%s)channel_convert<%s>(%s); }'
                     % (d.raw, s.tag, d.tag, s.raw, d.raw, d.cxx, s.make("x")))
            if s.integral and d.integral and s is not d:
                L.append('%s w_rt_%s_%s(%s x){ return (%s)channel_convert<%s>(channel_convert<%s>(%s)); }'
                         % (s.raw, s.tag, d.tag, s.raw, s.raw, s.cxx, d.cxx, s.make("x")))
    L.append('}')
    with open(path, "w") as f:
        f.write("\n".join(L) + "\n")


def in_range(ch):
    return (ch.kind, ch.bits, ch.lo, ch.hi)


def norm_ret(it, v, ch):
    if v is None:
        return None
    if ch.kind == "int":
        return it.as_signed(v, {}) if ch.signed else it.as_unsigned(v, {})
    return v


def analyse(fn, s, d):
    it = NumInterp(fn, {"a0": in_range(s)})
    ret = it.run()
    return it, norm_ret(it, ret, d)


def const_eval(fn, s, d, x):
    it = NumInterp(fn, {"a0": (s.kind, s.bits, x, x)})
    ret = norm_ret(it, it.run(), d)
    return ret


def run(rep):
    C.need_tools(C.IRDUMP)
    wd = C.workdir("C06")
    chans = models(rep.tier)
    src = os.path.join(wd, "c06_driver.cpp")
    gen_driver(chans, src)
    bc = C.emit_ir(src, os.path.join(wd, "c06.bc"))
    dump = C.irdump(bc, os.path.join(wd, "c06.json"))
    fns = {f["name"]: f for f in dump["functions"]}
    rep.units.append("generated driver: channel_convert over %d x %d channel models" % (len(chans), len(chans)))
    rep.trusted += ["clang 14 front end and LLVM inliner/SROA/mem2reg (no UB-exploiting pass is run)",
                    "transfer functions of harness/ir/num.py",
                    "documented channel ranges in harness/chanmodels.py"]
    rep.assumptions += ["packed_channel_value raw input lies in [0, 2^N-1] (constructor masks it)",
                        "float32_t input lies in its documented range [0,1]"]
    rep.rule("R1 every narrowing/fp->int/add/mul inside the inlined converter is lossless on the declared input range")
    rep.rule("R2 result range is inside the destination range")
    rep.rule("R3 min->min and max->max by constant propagation")
    rep.rule("R4 result is monotone non-decreasing in the input (D-mono)")
    rep.rule("R5 integral pairs: |result - linear rescale| < 1 destination unit (D-affine)")
    rep.rule("R6 integral S->D->S with levels(D) a multiple-compatible superset: affine coefficient 1 and |err|<1 => identity")
    rep.rule("R7 S->S is the identity function")
    by = {c.tag: c for c in chans}
    for s in chans:
        for d in chans:
            name = "w_cv_%s_%s" % (s.tag, d.tag)
            pair = "%s->%s" % (s.cxx, d.cxx)
            fn = fns.get(name)
            if fn is None:
                rep.fail_analysis("wrapper %s missing from IR" % name)
                continue
            rep.count("pairs")
            try:
                it, ret = analyse(fn, s, d)
            except Unsupported as e:
                rep.fail_analysis("%s: IR shape not supported by the interpreter: %s" % (pair, e))
                continue
            # R1
            seen = set()
            for ev in it.final_events():
                fnname, where = inner_fn(ev)
                key = "channel_convert<%s>:%s:%s" % (pair, ev.kind, fnname)
                if (key, ev.status, ev.detail) in seen:
                    continue
                seen.add((key, ev.status, ev.detail))
                if ev.status == "proved":
                    rep.ok("R1-" + ev.kind, key, ev.detail)
                elif ev.status == "refuted":
                    rep.violation("R1-" + ev.kind, key, where, {"detail": ev.detail, "witness": ev.witness, "pair": pair})
                else:
                    rep.incon("R1-" + ev.kind, key, ev.detail + " at " + where)
            # R2
            key = "channel_convert<%s>:range" % pair
            if ret is None or ret.top:
                rep.incon("R2-range", key, "result unknown")
            elif ret.lo >= d.lo and ret.hi <= d.hi:
                rep.ok("R2-range", key, "result [%s,%s] within [%s,%s]" % (ret.lo, ret.hi, d.lo, d.hi))
            else:
                wit = ret.hi_w if ret.hi > d.hi else ret.lo_w
                if wit is not None:
                    rep.violation("R2-range", key, "channel_algorithm.hpp", {"result": [str(ret.lo), str(ret.hi)], "dst": [d.lo, d.hi], "witness": wit})
                else:
                    rep.incon("R2-range", key, "result [%s,%s] vs [%s,%s]" % (ret.lo, ret.hi, d.lo, d.hi))
            # R3
            for which, x, want in (("min", s.lo, d.lo), ("max", s.hi, d.hi)):
                key = "channel_convert<%s>:%s" % (pair, which)
                try:
                    r = const_eval(fn, s, d, x)
                except Unsupported as e:
                    rep.incon("R3-endpoint", key, str(e))
                    continue
                if r is None or r.top or not r.is_const():
                    rep.incon("R3-endpoint", key, "not a constant: %r" % (r,))
                elif r.lo == want:
                    rep.ok("R3-endpoint", key, "%s -> %s" % (x, r.lo))
                else:
                    rep.violation("R3-endpoint", key, "channel_algorithm.hpp",
                                  {"input": str(x), "got": str(r.lo), "expected": str(want), "pair": pair})
            # R4
            key = "channel_convert<%s>:monotone" % pair
            if ret is not None and ret.mono.get("a0") in ("+", "="):
                rep.ok("R4-monotone", key, "mono=%s" % ret.mono.get("a0"))
            else:
                rep.incon("R4-monotone", key, "monotonicity not established")
            # R5
            if s.integral and d.integral and ret is not None and ret.aff is not None:
                key = "channel_convert<%s>:linear-error" % pair
                k = (Fr(d.hi) - Fr(d.lo)) / (Fr(s.hi) - Fr(s.lo))
                c = ret.aff.get("a0", Fr(0))
                if set(ret.aff) - {"a0"}:
                    rep.incon("R5-linear", key, "unexpected symbols %s" % list(ret.aff))
                else:
                    off = Fr(d.lo) - Fr(s.lo) * k
                    e1 = (c - k) * s.lo
                    e2 = (c - k) * s.hi
                    lo = min(e1, e2) + ret.elo - off
                    hi = max(e1, e2) + ret.ehi - off
                    if -1 < lo and hi < 1:
                        rep.ok("R5-linear", key, "error in [%s,%s]" % (float(lo), float(hi)))
                    else:
                        rep.incon("R5-linear", key, "error interval [%s,%s] not within (-1,1)" % (float(lo), float(hi)))
            # R7
            if s is d:
                key = "channel_convert<%s>:identity" % pair
                if ret is not None and ret.aff == {"a0": Fr(1)} and ret.elo == 0 and ret.ehi == 0:
                    rep.ok("R7-identity", key, "affine form is exactly x")
                else:
                    rep.violation("R7-identity", key, "channel_algorithm.hpp", {"affine": str(ret.aff) if ret else None, "pair": pair})
            # R6
            if s.integral and d.integral and s is not d and d.levels >= s.levels:
                name = "w_rt_%s_%s" % (s.tag, d.tag)
                key = "channel_convert<%s->%s>:roundtrip" % (pair, s.cxx)
                fn2 = fns.get(name)
                try:
                    it2, r2 = analyse(fn2, s, s)
                except Unsupported as e:
                    rep.incon("R6-roundtrip", key, str(e))
                    continue
                lo = hi = None
                if r2 is not None and r2.aff is not None and set(r2.aff) <= {"a0"}:
                    c = r2.aff.get("a0", Fr(0)) - 1
                    lo = min(c * s.lo, c * s.hi) + r2.elo
                    hi = max(c * s.lo, c * s.hi) + r2.ehi
                if lo is not None and -1 < lo and hi < 1:
                    rep.ok("R6-roundtrip", key, "x + e, e integer in (%s,%s) => e=0" % (float(lo), float(hi)))
                elif (d.levels - 1) % (s.levels - 1) == 0 and not any(e.status != "proved" for e in it2.final_events()):
                    rep.incon("R6-roundtrip", key, "divisible pair but affine form %s+[%s,%s]" % (r2.aff if r2 else None, r2.elo if r2 else None, r2.ehi if r2 else None))
                else:
                    rep.incon("R6-roundtrip", key, "not decided (non-divisible pair or lossy chain)")
    rep.floor("pairs", len(chans) ** 2)
    accept_inconclusive(rep)


def accept_inconclusive(rep, fname="c06_inconclusive.json"):
    """Inconclusive obligations are compared with the frozen table spec/c06_inconclusive.json: the ones
    listed there (with a reason) are clauses the claim does not cover; a new one is analysis-incomplete."""
    path = os.path.join(C.SPEC, fname)
    accepted = {}
    if os.path.exists(path):
        accepted = json.load(open(path))
    new = []
    for i in rep.inconclusive:
        if i["what"] not in accepted:
            new.append(i)
    rep.analysed["inconclusive_accepted"] = len(rep.inconclusive) - len(new)
    if os.environ.get("VERIF_FREEZE_INCONCLUSIVE") == rep.pid:
        json.dump({i["what"]: i["detail"] for i in rep.inconclusive}, open(path, "w"), indent=0, sort_keys=True)
        new = []
    rep.inconclusive = new
    if new:
        rep.fail_analysis("%d obligation(s) that are decided on the reference tree are now inconclusive (first: %s %s)"
                          % (len(new), new[0]["what"], new[0]["detail"]))
