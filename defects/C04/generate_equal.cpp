// C04 replay: generate_pixels restarts a stateful generator on every row of a view that is not 1-D traversable;
// equal_pixels compares float pixels with memcmp (-0.f vs 0.f differ, equal NaNs compare equal)
// g++ -std=c++14 -I/repo/include generate_equal.cpp && ./a.out
#include <boost/gil.hpp>
#include <cmath>
#include <cstdio>
using namespace boost::gil;
struct counter_gen { int n = 0; gray8_pixel_t operator()() { return gray8_pixel_t(std::uint8_t(n++)); } };
int main()
{
    int bad = 0;
    gray8_image_t a(3, 2), b(4, 2);
    generate_pixels(view(a), counter_gen());
    auto sub = subimage_view(view(b), 0, 0, 3, 2);
    generate_pixels(sub, counter_gen());
    std::printf("contiguous: %d %d %d | %d %d %d   sub-view: %d %d %d | %d %d %d\n", int(view(a)(0,0)[0]), int(view(a)(1,0)[0]), int(view(a)(2,0)[0]), int(view(a)(0,1)[0]), int(view(a)(1,1)[0]), int(view(a)(2,1)[0]),
                int(sub(0,0)[0]), int(sub(1,0)[0]), int(sub(2,0)[0]), int(sub(0,1)[0]), int(sub(1,1)[0]), int(sub(2,1)[0]));
    bad += sub(0, 1)[0] != 3;
    rgb32f_image_t p(1, 1, rgb32f_pixel_t(0.f, 0.f, 0.f)), q(1, 1, rgb32f_pixel_t(-0.f, 0.f, 0.f));
    bool px = view(p)(0, 0) == view(q)(0, 0), eq = equal_pixels(view(p), view(q));
    std::printf("0.f vs -0.f: pixels compare %s, equal_pixels says %s\n", px ? "equal" : "different", eq ? "equal" : "different");
    bad += px != eq;
    return bad;
}
