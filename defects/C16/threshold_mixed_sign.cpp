// C16 / T1b: the threshold has the destination's channel type, the pixel the source's; `px > threshold_value` between int32_t and uint32_t converted
// the signed operand to unsigned: a source value of -1 counted as greater than the threshold 0.
// Build: g++ -std=c++14 -I /repo/include threshold_mixed_sign.cpp && ./a.out
#include <boost/gil.hpp>
#include <boost/gil/image_processing/threshold.hpp>
#include <cstdio>
namespace gil = boost::gil;
int main()
{
    gil::gray32s_image_t src(1, 1, gil::gray32s_pixel_t(-1));
    gil::gray32_image_t dst(1, 1);
    gil::threshold_binary(gil::const_view(src), gil::view(dst), 0u);                  // -1 > 0 ?
    unsigned b = gil::view(dst)(0, 0)[0];
    gil::gray32_image_t usrc(1, 1, gil::gray32_pixel_t(7));
    gil::gray32s_image_t sdst(1, 1);
    gil::threshold_binary(gil::const_view(usrc), gil::view(sdst), -1);                // 7 > -1 ?
    int c = gil::view(sdst)(0, 0)[0];
    std::printf("-1 > 0u -> %u (expected 0); 7u > -1 -> %d (expected 2147483647)\n", b, c);
    return !(b == 0 && c == 2147483647);
}
