// C11 / R8b: file_stream_device::read passed static_cast<int>(count) to fread. For 2^31 <= count < 2^32 the int is negative and converts to a
// size_t near SIZE_MAX: a C library that honours the request reads the whole rest of the file into a buffer of `count` bytes; glibc hands
// the count to read(2), the kernel rejects it (EINVAL) and the device raises "file read error" for a perfectly readable file. For
// count >= 2^32 only count mod 2^32 bytes are read. Buffer of 2^31+16 bytes, sparse file of 2^31+4096 bytes, a guard area after the buffer.
// (Needs about 2 GiB of memory; the file is sparse.)
// Build: g++ -std=c++14 -O1 -I /repo/include device_read_count.cpp && ./a.out
#include <boost/gil.hpp>
#include <boost/gil/extension/io/bmp.hpp>
#include <cstdio>
#include <cstdlib>
#include <cstring>
#include <unistd.h>
using namespace boost::gil;
int main()
{
    char name[] = "/tmp/verif_big_XXXXXX";
    int fd = mkstemp(name);
    std::size_t const count = (std::size_t(1) << 31) + 16, guard = 8192;
    if (ftruncate(fd, off_t(count + 4096)) != 0) return 2;
    close(fd);
    unsigned char* buf = static_cast<unsigned char*>(std::malloc(count + guard));
    if (!buf) return 2;
    std::memset(buf + count, 0xAB, guard);
    std::size_t got = 0;
    {
        detail::file_stream_device<bmp_tag>::read_tag tag;
        std::string const fname(name);
        detail::file_stream_device<bmp_tag> dev(fname, tag);
        try { got = dev.read(buf, count); }
        catch (std::exception const& e) { std::printf("read of %zu bytes from a %zu byte file failed: %s\n", count, count + 4096, e.what()); }
    }
    std::size_t overrun = 0;
    for (std::size_t i = 0; i < guard; ++i) overrun += buf[count + i] != 0xAB;
    std::printf("asked for %zu bytes, read() returned %zu, %zu bytes written past the buffer\n", count, got, overrun);
    unlink(name);
    std::free(buf);
    return overrun != 0 || got != count;
}
