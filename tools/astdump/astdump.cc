// astdump: clang-14 libTooling extractor. Parses one driver translation unit with the real flags,
// visits template *instantiations*, and dumps the bodies of every function whose qualified name matches
// one of the --fn regexes as a JSON statement tree with resolved callees, member names, operator
// spellings, types and source lines. The rules that decide properties live in /verif/harness/ast (python).
#include "clang/AST/ASTConsumer.h"
#include "clang/AST/ASTContext.h"
#include "clang/AST/DeclTemplate.h"
#include "clang/AST/ExprCXX.h"
#include "clang/AST/RecursiveASTVisitor.h"
#include "clang/AST/StmtCXX.h"
#include "clang/Frontend/CompilerInstance.h"
#include "clang/Frontend/FrontendAction.h"
#include "clang/Tooling/CommonOptionsParser.h"
#include "clang/Tooling/Tooling.h"
#include "llvm/Support/CommandLine.h"
#include "llvm/Support/JSON.h"
#include "llvm/Support/Regex.h"
#include "llvm/Support/raw_ostream.h"
#include <set>
#include <string>
#include <vector>

using namespace clang;
using namespace llvm;

static cl::OptionCategory Cat("astdump");
static cl::list<std::string> FnPat("fn", cl::desc("regex on qualified function name"), cl::cat(Cat));
static cl::opt<std::string> Out("o", cl::desc("output json"), cl::Required, cl::cat(Cat));
static cl::opt<std::string> FileFilter("file", cl::desc("regex: only functions defined in files matching"), cl::init(""), cl::cat(Cat));
static cl::opt<bool> Patterns("patterns", cl::desc("also dump uninstantiated template patterns"), cl::init(false), cl::cat(Cat));

namespace {

struct Dumper {
  ASTContext &Ctx;
  SourceManager &SM;
  PrintingPolicy PP;
  Dumper(ASTContext &C) : Ctx(C), SM(C.getSourceManager()), PP(C.getLangOpts()) {
    PP.SuppressTagKeyword = true; PP.Bool = true; PP.SuppressUnwrittenScope = true;
  }

  std::string ty(QualType T) { return T.isNull() ? "" : T.getAsString(PP); }
  std::string cty(QualType T) { return T.isNull() ? "" : T.getCanonicalType().getAsString(PP); }

  int64_t line(SourceLocation L) { return L.isValid() ? (int64_t)SM.getExpansionLineNumber(L) : 0; }
  std::string file(SourceLocation L) {
    if (!L.isValid()) return "";
    return SM.getFilename(SM.getExpansionLoc(L)).str();
  }

  std::string qname(const NamedDecl *D) {
    std::string S; raw_string_ostream OS(S);
    D->getNameForDiagnostic(OS, PP, true);
    return OS.str();
  }
  // qualified name without any template arguments: boost::gil::image::swap
  static std::string plain(const NamedDecl *D) {
    std::vector<std::string> parts;
    parts.push_back(D->getNameAsString());
    for (const DeclContext *DC = D->getDeclContext(); DC; DC = DC->getParent()) {
      if (auto *ND = dyn_cast<NamespaceDecl>(DC)) { if (!ND->isAnonymousNamespace() && !ND->isInline()) parts.push_back(ND->getNameAsString()); }
      else if (auto *RD = dyn_cast<RecordDecl>(DC)) parts.push_back(RD->getNameAsString().empty() ? "(anon)" : RD->getNameAsString());
      else if (auto *FD = dyn_cast<FunctionDecl>(DC)) parts.push_back(FD->getNameAsString());
    }
    std::string S;
    for (auto it = parts.rbegin(); it != parts.rend(); ++it) { if (!S.empty()) S += "::"; S += *it; }
    return S;
  }
  std::string declId(const Decl *D) {
    char b[32]; snprintf(b, sizeof b, "d%lx", (unsigned long)(uintptr_t)D->getCanonicalDecl());
    return b;
  }

  json::Value callee(const FunctionDecl *FD) {
    json::Object O;
    O["name"] = plain(FD);
    O["full"] = qname(FD);
    O["id"] = declId(FD);
    if (auto *FPT = FD->getType()->getAs<FunctionProtoType>()) {
      O["nothrow"] = FPT->isNothrow();
    }
    O["file"] = file(FD->getLocation());
    O["line"] = line(FD->getLocation());
    if (auto *MD = dyn_cast<CXXMethodDecl>(FD)) {
      O["method"] = true;
      O["cls"] = qname(MD->getParent());
      O["static"] = MD->isStatic();
      O["const"] = MD->isConst();
    }
    if (FD->isTemplateInstantiation()) {
      if (auto *P = FD->getTemplateInstantiationPattern()) O["pattern_line"] = line(P->getLocation());
    }
    json::Array PT;
    for (auto *P : FD->parameters()) PT.push_back(ty(P->getType()));
    O["ptypes"] = std::move(PT);
    O["ret"] = ty(FD->getReturnType());
    return std::move(O);
  }

  json::Value stmt(const Stmt *S) {
    if (!S) return nullptr;
    // transparent wrappers
    if (auto *E = dyn_cast<ExprWithCleanups>(S)) return stmt(E->getSubExpr());
    if (auto *E = dyn_cast<MaterializeTemporaryExpr>(S)) return stmt(E->getSubExpr());
    if (auto *E = dyn_cast<CXXBindTemporaryExpr>(S)) return stmt(E->getSubExpr());
    if (auto *E = dyn_cast<ParenExpr>(S)) return stmt(E->getSubExpr());
    if (auto *E = dyn_cast<ConstantExpr>(S)) return stmt(E->getSubExpr());
    if (auto *E = dyn_cast<SubstNonTypeTemplateParmExpr>(S)) return stmt(E->getReplacement());
    if (auto *E = dyn_cast<CXXDefaultArgExpr>(S)) { json::Object O; O["k"] = "DefaultArg"; O["e"] = stmt(E->getExpr()); O["line"] = line(S->getBeginLoc()); return std::move(O); }
    if (auto *E = dyn_cast<CXXDefaultInitExpr>(S)) return stmt(E->getExpr());

    json::Object O;
    O["k"] = S->getStmtClassName();
    O["line"] = line(S->getBeginLoc());
    if (auto *E = dyn_cast<Expr>(S)) {
      O["type"] = ty(E->getType());
      if (E->getType()->isIntegerType() && !E->getType()->isDependentType()) {
        // canonical spelling of integral types that are written through typedefs (property_base<uint16_t>::type, std::ptrdiff_t, ...)
        std::string c = cty(E->getType());
        if (c != ty(E->getType())) O["ctype"] = c;
      }
      if (E->isLValue()) O["lv"] = true;
      if (!E->isValueDependent() && !E->isTypeDependent() && E->getType()->isIntegralOrEnumerationType()) {
        Expr::EvalResult R;
        if (E->EvaluateAsInt(R, Ctx, Expr::SE_NoSideEffects)) {
          SmallString<32> Str; R.Val.getInt().toString(Str, 10);
          O["const"] = Str.str().str();
        }
      }
    }
    auto kids = [&](json::Object &Obj) {
      json::Array A;
      for (const Stmt *C : S->children()) A.push_back(stmt(C));
      Obj["c"] = std::move(A);
    };

    if (auto *E = dyn_cast<ImplicitCastExpr>(S)) {
      O["k"] = "ImplicitCast"; O["cast"] = E->getCastKindName(); O["e"] = stmt(E->getSubExpr());
      if (E->getCastKind() == CK_IntegralCast || E->getCastKind() == CK_IntegralToFloating || E->getCastKind() == CK_FloatingToIntegral) {
        // canonical source and destination types: the written ones are often sugar (typedefs, decltype, tuple_element_t)
        O["from_c"] = cty(E->getSubExpr()->getType()); O["to_c"] = cty(E->getType());
      }
      return std::move(O);
    }
    if (auto *E = dyn_cast<ExplicitCastExpr>(S)) {
      O["k"] = "ExplicitCast"; O["cast"] = E->getCastKindName(); O["to"] = ty(E->getTypeAsWritten()); O["e"] = stmt(E->getSubExpr());
      if (E->getCastKind() == CK_IntegralCast || E->getCastKind() == CK_IntegralToFloating || E->getCastKind() == CK_FloatingToIntegral) {
        O["from_c"] = cty(E->getSubExpr()->getType()); O["to_c"] = cty(E->getType());
      }
      return std::move(O);
    }
    if (auto *E = dyn_cast<CallExpr>(S)) {
      O["k"] = "Call";
      if (auto *FD = E->getDirectCallee()) O["callee"] = callee(FD);
      else {
        json::Object CO; CO["name"] = "<indirect>";
        const Expr *C = E->getCallee()->IgnoreParenImpCasts();
        if (auto *UL = dyn_cast<UnresolvedLookupExpr>(C)) CO["name"] = "unresolved:" + UL->getName().getAsString();
        else if (auto *UM = dyn_cast<UnresolvedMemberExpr>(C)) CO["name"] = "unresolved:" + UM->getMemberName().getAsString();
        else if (auto *DM = dyn_cast<CXXDependentScopeMemberExpr>(C)) CO["name"] = "unresolved:" + DM->getMember().getAsString();
        else if (auto *DR = dyn_cast<DependentScopeDeclRefExpr>(C)) CO["name"] = "unresolved:" + DR->getDeclName().getAsString();
        O["callee"] = std::move(CO);
        O["callee_expr"] = stmt(E->getCallee());
      }
      if (auto *MC = dyn_cast<CXXMemberCallExpr>(S)) { O["obj"] = stmt(MC->getImplicitObjectArgument()); O["member_call"] = true; }
      if (auto *OC = dyn_cast<CXXOperatorCallExpr>(S)) { O["op"] = getOperatorSpelling(OC->getOperator()); }
      json::Array A;
      for (const Expr *Arg : E->arguments()) A.push_back(stmt(Arg));
      O["args"] = std::move(A);
      return std::move(O);
    }
    if (auto *E = dyn_cast<CXXConstructExpr>(S)) {
      O["k"] = "Construct";
      O["callee"] = callee(E->getConstructor());
      O["cls"] = ty(E->getType());
      O["ccls"] = cty(E->getType());
      O["temporary"] = isa<CXXTemporaryObjectExpr>(S);
      O["elidable"] = E->isElidable();
      json::Array A;
      for (const Expr *Arg : E->arguments()) A.push_back(stmt(Arg));
      O["args"] = std::move(A);
      return std::move(O);
    }
    if (auto *E = dyn_cast<DeclRefExpr>(S)) {
      O["k"] = "DeclRef";
      O["name"] = E->getDecl()->getNameAsString();
      O["qname"] = E->getDecl()->getQualifiedNameAsString();
      O["id"] = declId(E->getDecl());
      O["dk"] = E->getDecl()->getDeclKindName();
      return std::move(O);
    }
    if (auto *E = dyn_cast<MemberExpr>(S)) {
      O["k"] = "Member";
      O["name"] = E->getMemberDecl()->getNameAsString();
      O["id"] = declId(E->getMemberDecl());
      O["arrow"] = E->isArrow();
      O["base"] = stmt(E->getBase());
      O["dk"] = E->getMemberDecl()->getDeclKindName();
      return std::move(O);
    }
    if (auto *E = dyn_cast<CXXDependentScopeMemberExpr>(S)) {
      O["k"] = "Member"; O["name"] = E->getMember().getAsString(); O["dependent"] = true;
      if (!E->isImplicitAccess()) O["base"] = stmt(E->getBase());
      return std::move(O);
    }
    if (auto *E = dyn_cast<BinaryOperator>(S)) {
      O["k"] = E->isCompoundAssignmentOp() ? "CompoundAssign" : (E->isAssignmentOp() ? "Assign" : "Binary");
      O["op"] = E->getOpcodeStr().str();
      O["l"] = stmt(E->getLHS()); O["r"] = stmt(E->getRHS());
      if (auto *CA = dyn_cast<CompoundAssignOperator>(E)) {
        // x op= y is computed in comp_c and converted back to the type of x: an int accumulator that collects doubles truncates on every step
        O["lhs_c"] = cty(E->getLHS()->getType()); O["comp_c"] = cty(CA->getComputationResultType());
      }
      return std::move(O);
    }
    if (auto *E = dyn_cast<UnaryOperator>(S)) {
      O["k"] = "Unary"; O["op"] = UnaryOperator::getOpcodeStr(E->getOpcode()).str();
      O["prefix"] = E->isPrefix(); O["e"] = stmt(E->getSubExpr());
      return std::move(O);
    }
    if (auto *E = dyn_cast<ConditionalOperator>(S)) {
      O["k"] = "Cond"; O["cond"] = stmt(E->getCond()); O["then"] = stmt(E->getTrueExpr()); O["else"] = stmt(E->getFalseExpr());
      return std::move(O);
    }
    if (auto *E = dyn_cast<ArraySubscriptExpr>(S)) {
      O["k"] = "Subscript"; O["base"] = stmt(E->getBase()); O["idx"] = stmt(E->getIdx());
      return std::move(O);
    }
    if (auto *E = dyn_cast<IntegerLiteral>(S)) { O["k"] = "Int"; SmallString<32> Str; E->getValue().toString(Str, 10, false); O["v"] = Str.str().str(); return std::move(O); }
    if (auto *E = dyn_cast<FloatingLiteral>(S)) { O["k"] = "Float"; SmallString<32> Str; E->getValue().toString(Str); O["v"] = Str.str().str(); return std::move(O); }
    if (auto *E = dyn_cast<CXXBoolLiteralExpr>(S)) { O["k"] = "Bool"; O["v"] = E->getValue(); return std::move(O); }
    if (auto *E = dyn_cast<clang::StringLiteral>(S)) { O["k"] = "Str"; if (E->isAscii()) O["v"] = E->getString().str(); return std::move(O); }
    if (isa<CXXNullPtrLiteralExpr>(S)) { O["k"] = "Null"; return std::move(O); }
    if (isa<CXXThisExpr>(S)) { O["k"] = "This"; return std::move(O); }
    if (auto *E = dyn_cast<UnaryExprOrTypeTraitExpr>(S)) {
      O["k"] = "SizeOf"; O["trait"] = (int64_t)E->getKind();
      if (E->isArgumentType()) O["of"] = ty(E->getArgumentType()); else O["e"] = stmt(E->getArgumentExpr());
      return std::move(O);
    }
    if (auto *E = dyn_cast<CXXThrowExpr>(S)) { O["k"] = "Throw"; O["e"] = stmt(E->getSubExpr()); return std::move(O); }
    if (auto *E = dyn_cast<CXXNewExpr>(S)) { O["k"] = "New"; O["of"] = ty(E->getAllocatedType()); kids(O); return std::move(O); }
    if (auto *E = dyn_cast<CXXDeleteExpr>(S)) { O["k"] = "Delete"; O["e"] = stmt(E->getArgument()); return std::move(O); }
    if (auto *E = dyn_cast<LambdaExpr>(S)) {
      O["k"] = "Lambda";
      if (auto *M = E->getCallOperator()) { O["body"] = stmt(M->getBody()); json::Array PA; for (auto *P : M->parameters()) { json::Object PO; PO["name"] = P->getNameAsString(); PO["id"] = declId(P); PO["type"] = ty(P->getType()); PA.push_back(std::move(PO)); } O["params"] = std::move(PA); }
      json::Array CA;
      for (auto &C : E->captures()) { json::Object CO; if (C.capturesVariable()) { CO["name"] = C.getCapturedVar()->getNameAsString(); CO["id"] = declId(C.getCapturedVar()); } CO["byref"] = C.getCaptureKind() == LCK_ByRef; CA.push_back(std::move(CO)); }
      O["captures"] = std::move(CA);
      return std::move(O);
    }
    if (auto *E = dyn_cast<InitListExpr>(S)) { O["k"] = "InitList"; O["ccls"] = cty(E->getType()); kids(O); return std::move(O); }
    if (auto *E = dyn_cast<UnresolvedLookupExpr>(S)) { O["k"] = "Unresolved"; O["name"] = E->getName().getAsString(); return std::move(O); }
    if (auto *E = dyn_cast<DependentScopeDeclRefExpr>(S)) { O["k"] = "Unresolved"; O["name"] = E->getDeclName().getAsString(); return std::move(O); }
    if (auto *E = dyn_cast<CXXUnresolvedConstructExpr>(S)) { O["k"] = "Construct"; O["cls"] = ty(E->getTypeAsWritten()); json::Array A; for (const Expr *Arg : E->arguments()) A.push_back(stmt(Arg)); O["args"] = std::move(A); json::Object CO; CO["name"] = "unresolved-ctor"; O["callee"] = std::move(CO); return std::move(O); }
    // statements
    if (auto *C = dyn_cast<CompoundStmt>(S)) { O["k"] = "Compound"; kids(O); return std::move(O); }
    if (auto *I = dyn_cast<IfStmt>(S)) {
      O["k"] = "If"; O["constexpr"] = I->isConstexpr();
      if (I->getInit()) O["init"] = stmt(I->getInit());
      if (I->getConditionVariableDeclStmt()) O["condvar"] = stmt(I->getConditionVariableDeclStmt());
      O["cond"] = stmt(I->getCond()); O["then"] = stmt(I->getThen()); O["else"] = stmt(I->getElse());
      return std::move(O);
    }
    if (auto *F = dyn_cast<ForStmt>(S)) { O["k"] = "For"; O["init"] = stmt(F->getInit()); O["cond"] = stmt(F->getCond()); O["inc"] = stmt(F->getInc()); O["body"] = stmt(F->getBody()); return std::move(O); }
    if (auto *F = dyn_cast<CXXForRangeStmt>(S)) { O["k"] = "ForRange"; O["range"] = stmt(F->getRangeInit()); O["var"] = F->getLoopVariable()->getNameAsString(); O["var_id"] = declId(F->getLoopVariable()); O["body"] = stmt(F->getBody()); return std::move(O); }
    if (auto *W = dyn_cast<WhileStmt>(S)) { O["k"] = "While"; O["cond"] = stmt(W->getCond()); O["body"] = stmt(W->getBody()); return std::move(O); }
    if (auto *D = dyn_cast<DoStmt>(S)) { O["k"] = "Do"; O["cond"] = stmt(D->getCond()); O["body"] = stmt(D->getBody()); return std::move(O); }
    if (auto *R = dyn_cast<ReturnStmt>(S)) { O["k"] = "Return"; O["e"] = stmt(R->getRetValue()); return std::move(O); }
    if (auto *D = dyn_cast<DeclStmt>(S)) {
      O["k"] = "Decl";
      json::Array A;
      for (auto *DD : D->decls()) {
        json::Object V;
        if (auto *VD = dyn_cast<VarDecl>(DD)) {
          V["name"] = VD->getNameAsString(); V["id"] = declId(VD); V["type"] = ty(VD->getType()); V["ctype"] = cty(VD->getType());
          V["static"] = VD->isStaticLocal(); V["constexpr"] = VD->isConstexpr();
          if (VD->hasInit()) V["init"] = stmt(VD->getInit());
          if (auto *AT = Ctx.getAsConstantArrayType(VD->getType())) V["array_extent"] = (int64_t)AT->getSize().getZExtValue();
        } else V["other"] = DD->getDeclKindName();
        A.push_back(std::move(V));
      }
      O["decls"] = std::move(A);
      return std::move(O);
    }
    if (auto *Sw = dyn_cast<SwitchStmt>(S)) { O["k"] = "Switch"; O["cond"] = stmt(Sw->getCond()); O["body"] = stmt(Sw->getBody()); return std::move(O); }
    if (auto *Cs = dyn_cast<CaseStmt>(S)) { O["k"] = "Case"; O["v"] = stmt(Cs->getLHS()); O["sub"] = stmt(Cs->getSubStmt()); return std::move(O); }
    if (auto *Df = dyn_cast<DefaultStmt>(S)) { O["k"] = "Default"; O["sub"] = stmt(Df->getSubStmt()); return std::move(O); }
    if (isa<BreakStmt>(S)) { O["k"] = "Break"; return std::move(O); }
    if (isa<ContinueStmt>(S)) { O["k"] = "Continue"; return std::move(O); }
    if (isa<NullStmt>(S)) { O["k"] = "Null"; return std::move(O); }
    if (auto *T = dyn_cast<CXXTryStmt>(S)) {
      O["k"] = "Try"; O["block"] = stmt(T->getTryBlock());
      json::Array H;
      for (unsigned i = 0; i < T->getNumHandlers(); ++i) {
        json::Object HO; auto *C = T->getHandler(i);
        HO["all"] = C->getExceptionDecl() == nullptr;
        if (C->getExceptionDecl()) HO["type"] = ty(C->getCaughtType());
        HO["body"] = stmt(C->getHandlerBlock());
        H.push_back(std::move(HO));
      }
      O["handlers"] = std::move(H);
      return std::move(O);
    }
    kids(O);
    return std::move(O);
  }

  json::Value function(const FunctionDecl *FD) {
    json::Object O;
    O["name"] = plain(FD);
    O["full"] = qname(FD);
    O["id"] = declId(FD);
    O["file"] = file(FD->getLocation());
    O["line"] = line(FD->getLocation());
    O["ret"] = ty(FD->getReturnType());
    O["instantiation"] = FD->isTemplateInstantiation();
    O["dependent"] = FD->isDependentContext();
    if (auto *FPT = FD->getType()->getAs<FunctionProtoType>()) O["nothrow"] = FPT->isNothrow();
    if (auto *MD = dyn_cast<CXXMethodDecl>(FD)) { O["cls"] = qname(MD->getParent()); O["const"] = MD->isConst(); O["static"] = MD->isStatic(); }
    json::Array P;
    for (auto *PD : FD->parameters()) {
      json::Object PO; PO["name"] = PD->getNameAsString(); PO["id"] = declId(PD); PO["type"] = ty(PD->getType());
      // default argument (sibling functions that forward to one another must agree on it); an uninstantiated one is taken from the pattern
      const ParmVarDecl *DP = PD;
      if (PD->hasUninstantiatedDefaultArg() || (!PD->hasDefaultArg() && FD->getTemplateInstantiationPattern())) {
        if (auto *Pat = FD->getTemplateInstantiationPattern()) { unsigned i = PD->getFunctionScopeIndex(); if (i < Pat->getNumParams()) DP = Pat->getParamDecl(i); }
      }
      if (DP->hasDefaultArg() && !DP->hasUnparsedDefaultArg()) {
        const Expr *DE = DP->hasUninstantiatedDefaultArg() ? DP->getUninstantiatedDefaultArg() : DP->getDefaultArg();
        if (DE) PO["default"] = stmt(DE);
      }
      P.push_back(std::move(PO));
    }
    O["params"] = std::move(P);
    if (auto *CD = dyn_cast<CXXConstructorDecl>(FD)) {
      json::Array I;
      for (auto *CI : CD->inits()) {
        json::Object IO;
        if (CI->isMemberInitializer()) { IO["member"] = CI->getMember()->getNameAsString(); IO["id"] = declId(CI->getMember()); }
        else if (CI->isBaseInitializer()) IO["base"] = ty(QualType(CI->getBaseClass(), 0));
        IO["written"] = CI->isWritten();
        IO["init"] = stmt(CI->getInit());
        I.push_back(std::move(IO));
      }
      O["inits"] = std::move(I);
    }
    O["body"] = stmt(FD->getBody());
    return std::move(O);
  }
};

class V : public RecursiveASTVisitor<V> {
public:
  ASTContext &Ctx;
  std::vector<Regex> Pats;
  Regex FileRe;
  bool HasFile;
  json::Array Fns;
  std::set<const FunctionDecl *> Seen;
  Dumper D;
  V(ASTContext &C) : Ctx(C), FileRe(FileFilter), HasFile(!FileFilter.empty()), D(C) { for (auto &P : FnPat) Pats.emplace_back(P); }
  bool shouldVisitTemplateInstantiations() const { return true; }
  bool shouldVisitImplicitCode() const { return false; }
  bool VisitFunctionDecl(FunctionDecl *FD) {
    if (!FD->doesThisDeclarationHaveABody()) return true;
    if (FD->isDependentContext() && !Patterns) return true;
    if (!Seen.insert(FD).second) return true;
    std::string N = Dumper::plain(FD);
    bool m = false;
    for (auto &R : Pats) if (R.match(N)) { m = true; break; }
    if (!m) return true;
    if (HasFile && !FileRe.match(D.file(FD->getLocation()))) return true;
    Fns.push_back(D.function(FD));
    return true;
  }
};

class Consumer : public ASTConsumer {
public:
  void HandleTranslationUnit(ASTContext &Ctx) override {
    if (Ctx.getDiagnostics().hasErrorOccurred()) { errs() << "astdump: translation unit has errors\n"; }
    V v(Ctx);
    v.TraverseDecl(Ctx.getTranslationUnitDecl());
    json::Object Top;
    Top["functions"] = std::move(v.Fns);
    Top["errors"] = Ctx.getDiagnostics().hasErrorOccurred();
    std::error_code EC;
    raw_fd_ostream OS(Out, EC);
    OS << json::Value(std::move(Top));
  }
};

class Action : public ASTFrontendAction {
public:
  std::unique_ptr<ASTConsumer> CreateASTConsumer(CompilerInstance &, StringRef) override { return std::make_unique<Consumer>(); }
};

} // namespace

int main(int argc, const char **argv) {
  auto Exp = tooling::CommonOptionsParser::create(argc, argv, Cat);
  if (!Exp) { errs() << toString(Exp.takeError()); return 2; }
  tooling::ClangTool Tool(Exp->getCompilations(), Exp->getSourcePathList());
  return Tool.run(tooling::newFrontendActionFactory<Action>().get());
}
