#include <cstdint>
#include <cstdio>
#include <random>
// compare  a / double(M) * b   (library)  with  double(a) * b / double(M)  (candidate)
int main(){
  for (int N : {3,5,6,8,10,11,16}) {
    uint64_t M = (1ull << N) - 1; long noncomm_old = 0, id_old = 0, id_new = 0, diff = 0, worse = 0;
    for (uint64_t a = 0; a <= M; ++a) {
      if ((uint64_t)(a / double(M) * M) != a) ++id_old;
      if ((uint64_t)(double(a) * M / double(M)) != a) ++id_new;
      if (N <= 11) for (uint64_t b = 0; b <= M; ++b) {
        uint64_t o = (uint64_t)(a / double(M) * b), o2 = (uint64_t)(b / double(M) * a), n = (uint64_t)(double(a) * b / double(M));
        if (o != o2) ++noncomm_old; if (o != n) ++diff;
        double exact = double(a) * double(b) / double(M); if ((double)n > exact || exact - (double)n >= 1.0) ++worse;
      }
    }
    printf("N=%d: old non-commutative %ld, old identity failures %ld, new identity failures %ld, pairs where results differ %ld, new not floor(exact) %ld\n", N, noncomm_old, id_old, id_new, diff, worse);
  }
  // 32-bit channels (bits32 / uint32_t use the same generic path)
  uint64_t M = 0xFFFFFFFFull; std::mt19937_64 g(1); long id_old = 0, id_new = 0, nc = 0;
  for (int i = 0; i < 20000000; ++i) { uint64_t a = g() & M, b = g() & M;
    if ((uint64_t)(a / double(M) * M) != a) ++id_old; if ((uint64_t)(double(a) * M / double(M)) != a) ++id_new;
    if ((uint64_t)(a / double(M) * b) != (uint64_t)(b / double(M) * a)) ++nc; }
  printf("N=32 (20M samples): old identity failures %ld, new identity failures %ld, old non-commutative %ld\n", id_old, id_new, nc);
  printf("corners N=32: old max*max=%llu new max*max=%llu\n", (unsigned long long)(uint64_t)(M / double(M) * M), (unsigned long long)(uint64_t)(double(M) * M / double(M)));
}
