"""C02 view transformations: address-polynomial identities of every factory on every view kind,
compositions of depth 2, dimensions, and the algebraic identities -- D-poly over inlined IR."""
import os, json
from . import common as C
from .ir.poly import PolyInterp, Unsupported, Poly

LEVEL = "proof"
EXPLANATION = ("Static analysis: for every provided view kind K and factory F the wrapper pair "
               "lhs = cell(F(v),x,y), rhs = cell(v, phi_F(x,y)) (phi from the documentation, spec/c02_factories.json) "
               "is compiled to LLVM IR, everything of GIL is inlined, and both results are normalised to polynomials over "
               "the view's fields and (x,y). Equal normal forms = same memory cell for all shapes/coordinates/strides. "
               "Same for all ordered compositions of two factories, the dimension formulas, nth/kth_channel views and "
               "the identities flip^2, transposed^2, rot90cw^4, rot180 = flipLR o flipUD. A different normal form is a "
               "violation (the two polynomials are printed).")

# kinds: tag -> (C++ type in namespace vf, number of probes)
KINDS_QUICK = ["k_inter", "k_planar", "k_xystep", "k_pT", "k_packed", "k_bits7", "k_deref", "k_derefs", "k_virt", "k_g16step"]
KINDS_ALL = ["k_inter", "k_gray16", "k_g16step", "k_rgba32f", "k_planar", "k_planar16", "k_xstep", "k_xystep", "k_xyT", "k_pstep", "k_pT",
             "k_packed", "k_packstep", "k_bits", "k_bits7", "k_bits1", "k_bitstep", "k_nth", "k_kth", "k_deref", "k_derefs", "k_virt"]
NPROBE = {"k_planar": 3, "k_planar16": 3, "k_pstep": 3, "k_pT": 3}
CHAN_KINDS = ["k_inter", "k_gray16", "k_g16step", "k_planar", "k_xstep", "k_xystep", "k_pstep", "k_xyT", "k_pT"]


def load_spec():
    return json.load(open(os.path.join(C.SPEC, "c02_factories.json")))


def phi(f, x, y, W, H):
    """documented source coordinates of F(v)(x,y); W,H are the *source* dims"""
    d = {"x": "(%s)" % x, "y": "(%s)" % y, "W": "(%s)" % W, "H": "(%s)" % H}
    return f["phi_x"].format(**d), f["phi_y"].format(**d)


def dims(f, W, H):
    d = {"W": "(%s)" % W, "H": "(%s)" % H}
    return f["dim_w"].format(**d), f["dim_h"].format(**d)


def call(f, v):
    return f["call"].format(v=v)


SIG = "std::ptrdiff_t x, std::ptrdiff_t y, std::ptrdiff_t p0, std::ptrdiff_t p1, std::ptrdiff_t p2, std::ptrdiff_t p3, std::ptrdiff_t q0, std::ptrdiff_t q1, std::ptrdiff_t q2, std::ptrdiff_t q3"


def gen(kinds, spec, path, tier):
    L = ['#include "vf_common.hpp"', 'using namespace vf;', 'extern "C" {']
    obl = []   # (id, lhs fn, rhs fn, description)
    facs = spec["factories"]

    def emit(name, kind, expr):
        L.append("iptr %s(%s const& v, %s){ return %s; }" % (name, kind, SIG, expr))
    n = 0
    for k in kinds:
        np = NPROBE.get(k, 1)
        for f in facs:
            # single factory
            fx, fy = phi(f, "x", "y", "v.width()", "v.height()")
            for c in range(np):
                n += 1
                a, b = "w_%d_l" % n, "w_%d_r" % n
                emit(a, k, "probe_at<%d>(%s, x, y)" % (c, call(f, "v").replace("P", "p")))
                emit(b, k, "probe_at<%d>(v, %s, %s)" % (c, fx.replace("P", "p"), fy.replace("P", "p")))
                obl.append((a, b, "cell", "%s(%s)(x,y)[ch%d] == v(%s,%s)" % (f["name"], k, c, f["phi_x"], f["phi_y"]), f["name"], k))
            dw, dh = dims(f, "v.width()", "v.height()")
            for which, e in (("width", dw), ("height", dh)):
                n += 1
                a, b = "w_%d_l" % n, "w_%d_r" % n
                emit(a, k, "(iptr)(%s).%s()" % (call(f, "v").replace("P", "p"), which))
                emit(b, k, "(iptr)(%s)" % e.replace("P", "p"))
                obl.append((a, b, "dim", "%s(%s).%s() == %s" % (f["name"], k, which, f["dim_" + which[0]]), f["name"], k))
        # compositions F(G(v))
        for g in facs:
            for f in facs:
                if tier == "quick" and k not in ("k_inter", "k_planar", "k_bits7", "k_virt", "k_deref", "k_derefs", "k_xystep") and not (f["name"] == g["name"]):
                    continue
                gw, gh = dims(g, "v.width()", "v.height()")
                gw, gh = gw.replace("P", "q"), gh.replace("P", "q")
                x1, y1 = phi(f, "x", "y", gw, gh)
                x1, y1 = x1.replace("P", "p"), y1.replace("P", "p")
                x0, y0 = phi(g, x1, y1, "v.width()", "v.height()")
                x0, y0 = x0.replace("P", "q"), y0.replace("P", "q")
                inner = call(g, "v").replace("P", "q")
                outer = call(f, inner).replace("P", "p")
                for c in range(np):
                    n += 1
                    a, b = "w_%d_l" % n, "w_%d_r" % n
                    emit(a, k, "probe_at<%d>(%s, x, y)" % (c, outer))
                    emit(b, k, "probe_at<%d>(v, %s, %s)" % (c, x0, y0))
                    obl.append((a, b, "compose", "%s(%s(%s))(x,y)[ch%d] == v(phi_%s(phi_%s(x,y)))" % (f["name"], g["name"], k, c, g["name"], f["name"]), f["name"] + "*" + g["name"], k))
        # identities
        for name, lhs in spec["identities"].items():
            for c in range(np):
                n += 1
                a, b = "w_%d_l" % n, "w_%d_r" % n
                emit(a, k, "probe_at<%d>(%s, x, y)" % (c, lhs["lhs"].format(v="v")))
                emit(b, k, "probe_at<%d>(%s, x, y)" % (c, lhs["rhs"].format(v="v")))
                obl.append((a, b, "identity", "%s on %s [ch%d]" % (name, k, c), name, k))
    # channel views
    for k in kinds:
        if k not in CHAN_KINDS:
            continue
        nch = 1 if k in ("k_gray16", "k_g16step") else 3
        planar = k in NPROBE
        for c in range(nch):
            n += 1
            a, b = "w_%d_l" % n, "w_%d_r" % n
            emit(a, k, "(iptr)&at_c<0>(nth_channel_view(v, %d)(x, y))" % c)
            emit(b, k, "(iptr)&at_c<%d>(v(x, y))" % c)
            obl.append((a, b, "cell", "nth_channel_view(%s,%d)(x,y) == &at_c<%d>(v(x,y))" % (k, c, c), "nth_channel_view", k))
            n += 1
            a, b = "w_%d_l" % n, "w_%d_r" % n
            emit(a, k, "(iptr)&at_c<0>(kth_channel_view<%d>(v)(x, y))" % c)
            emit(b, k, "(iptr)&at_c<%d>(v(x, y))" % c)
            obl.append((a, b, "cell", "kth_channel_view<%d>(%s)(x,y) == &at_c<%d>(v(x,y))" % (c, k, c), "kth_channel_view", k))
            for which in ("width", "height"):
                n += 1
                a, b = "w_%d_l" % n, "w_%d_r" % n
                emit(a, k, "(iptr)nth_channel_view(v, %d).%s()" % (c, which))
                emit(b, k, "(iptr)v.%s()" % which)
                obl.append((a, b, "dim", "nth_channel_view(%s,%d).%s()" % (k, c, which), "nth_channel_view", k))
    L.append("}")
    open(path, "w").write("\n".join(L) + "\n")
    return obl


def run(rep):
    C.need_tools(C.IRDUMP)
    wd = C.workdir("C02")
    spec = load_spec()
    kinds = KINDS_ALL if rep.tier == "thorough" else KINDS_QUICK
    # split into several translation units to use all cores
    chunks = [kinds[i::8] for i in range(8)]
    chunks = [c for c in chunks if c]
    jobs = []
    for i, ch in enumerate(chunks):
        src = os.path.join(wd, "c02_%d.cpp" % i)
        obl = gen(ch, spec, src, rep.tier)
        jobs.append((i, src, obl))

    def work(job):
        i, src, obl = job
        try:
            bc = C.emit_ir(src, os.path.join(wd, "c02_%d.bc" % i))
            dump = C.irdump(bc, os.path.join(wd, "c02_%d.json" % i))
            return (obl, {f["name"]: f for f in dump["functions"]}, None)
        except C.AnalysisBroken as e:
            return (obl, None, str(e))
    results = C.pmap(work, jobs)
    rep.trusted += ["clang 14 front end and LLVM inliner/SROA/mem2reg", "polynomial normaliser harness/ir/poly.py",
                    "documented coordinate formulas spec/c02_factories.json"]
    engine_assumed = set()
    rep.rule("cell: normal form of cell(F(v),x,y) equals normal form of cell(v, phi_F(x,y)) for every kind K and factory F")
    rep.rule("dim: F(v).width()/height() equal the documented formula")
    rep.rule("compose: cell(F(G(v)),x,y) equals cell(v, phi_G(phi_F(x,y))) for all ordered pairs")
    rep.rule("identity: flipUD^2, flipLR^2, transposed^2, rot90cw^4, rot90ccw o rot90cw, rot180 == flipLR o flipUD")
    for obl, fns, err in results:
        if err:
            rep.fail_analysis(err)
            continue
        for a, b, kind, desc, fac, k in obl:
            rep.count("obligations:" + kind)
            rep.count("kind:" + k)
            try:
                ia = PolyInterp(fns[a])
                ra = ia.run()
                ib = PolyInterp(fns[b])
                rb = ib.run()
            except (Unsupported, KeyError) as e:
                rep.fail_analysis("%s: IR not supported: %s" % (desc, e))
                continue
            engine_assumed |= ia.assumed | ib.assumed
            key = "%s:%s:%s" % (kind, fac, k)
            if ra == rb:
                rep.ok(kind, desc, {"normal_form": repr(ra)[:300]})
            else:
                rep.violation(kind, key, "include/boost/gil/image_view_factory.hpp (%s)" % fac,
                              {"obligation": desc, "lhs": repr(ra)[:1500], "rhs": repr(rb)[:1500],
                               "difference": repr(ra - rb)[:800] if isinstance(ra, Poly) and isinstance(rb, Poly) else None})
    rep.assumptions += sorted(engine_assumed)       # (a narrowed bit offset was one until C03 L11 / the repair of bit_advance)
    nk = len(kinds)
    rep.floor("obligations:cell", nk * 8)
    rep.floor("obligations:dim", nk * 16)
    rep.floor("obligations:compose", nk * 8)
    rep.floor("obligations:identity", nk * 6)
