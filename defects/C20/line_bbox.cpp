// C20 replay: bresenham_line_rasterizer leaves the end points' bounding box, and apply_rasterizer then writes
// outside a view that contains that box.  g++ -std=c++14 -I/repo/include line_bbox.cpp && ./a.out
#include <boost/gil.hpp>
#include <boost/gil/extension/rasterization/line.hpp>
#include <cstdio>
#include <vector>
namespace gil = boost::gil;
int main()
{
    int bad = 0, total = 0;
    std::ptrdiff_t fx = 0, fy = 0; gil::point_t fp{0, 0};
    for (std::ptrdiff_t dx = -12; dx <= 12; ++dx)
        for (std::ptrdiff_t dy = -12; dy <= 12; ++dy)
        {
            gil::bresenham_line_rasterizer r({0, 0}, {dx, dy});
            std::vector<gil::point_t> pts(r.point_count());
            r(pts.begin());
            ++total;
            bool out = false;
            for (auto p : pts)
                if (p.x < std::min<std::ptrdiff_t>(0, dx) || p.x > std::max<std::ptrdiff_t>(0, dx) || p.y < std::min<std::ptrdiff_t>(0, dy) || p.y > std::max<std::ptrdiff_t>(0, dy))
                {
                    if (!bad && !out) { fx = dx; fy = dy; fp = p; }
                    out = true;
                }
            bad += out;
        }
    std::printf("direction vectors with a point outside the bounding box: %d of %d; first: (0,0)->(%td,%td) emits (%td,%td)\n", bad, total, fx, fy, fp.x, fp.y);
    {
        gil::bresenham_line_rasterizer r({0, 0}, {7, 1});
        std::vector<gil::point_t> pts(r.point_count());
        r(pts.begin());
        std::printf("(0,0)->(7,1):");
        for (auto p : pts) std::printf(" (%td,%td)", p.x, p.y);
        std::printf("\n");
    }
    return bad ? 1 : 0;
}
