// C19 replay: normalize() of a histogram without mass (dense fill of an empty or fully masked view) turns every bin into NaN
// g++ -std=c++14 -I/repo/include normalize_empty.cpp && ./a.out
#include <boost/gil.hpp>
#include <boost/gil/histogram.hpp>
#include <cmath>
#include <cstdio>
namespace gil = boost::gil;
int main()
{
    gil::gray8_image_t img;
    gil::histogram<int> h;
    gil::fill_histogram(gil::view(img), h, 1, false, false, false, {}, std::make_tuple(0), std::make_tuple(2), true);
    h.normalize();
    std::printf("bin 0 = %g, sum = %g\n", (double)h(0), h.sum());
    return std::isnan(h.sum()) ? 1 : 0;
}
