"""C12 write_view -> read_image reproduces the view (lossless formats): the structural clauses, decided statically.

What is decided (every clause is a necessary condition of the round trip; none of them runs the library):
  W1  supported-type tables (type-level constants read from the compiled program)
  W2  device integer writers/readers are inverse byte orders (bit provenance over LLVM IR)
  W3  header/stream agreement: the abstract byte stream of the writer, pushed through the reader's header parser
      by constant/polynomial propagation over the AST, is accepted and yields the written dimensions, depth and
      data offset; row byte counts, row order and file offsets of rows agree as polynomials in (W,H,y)
  W4  the byte transformations applied to a row before writing and after reading are inverse bit maps
  W5  the wire pixel type of the writer's row buffer equals that of the reader's row buffer
Not decided: pixel equality itself for PNG/TIFF/JPEG (done by libpng/libtiff/libjpeg, outside the source analysed).
"""
import os, re, json, itertools
from . import common as C
from .ast import rules as R
from .ast.absexec import Exec, Stop
from .ir.poly import Poly

LEVEL = "other"
EXPLANATION = ("Static analysis of the writer/reader pairs GIL implements itself (BMP, PNM binary, TARGA) plus the type tables of all "
               "formats. (W1) is_write_supported<P,F> implies is_read_supported<P,F> and the header parameters the writer derives "
               "from P equal those the reader's compatibility test derives from P (constants taken from the compiled program). "
               "(W2) write_uintN followed by read_uintN is the identity (bit provenance). (W3) the writer's header is executed "
               "abstractly (constant/polynomial propagation over the instantiated AST, symbols W,H) into a stream of fields; the "
               "reader's read_header is executed on that stream: it must not reach io_error, must recover width=W, height=H, the "
               "depth the reader's is_allowed<View> accepts and a pixel-data offset equal to the number of header bytes written; "
               "then for the row loops: bytes written per row == bytes read per row, and the file position of view row y is the "
               "same polynomial in (W,H,y) on both sides (covers padding and bottom-up/top-down). (W4) the sequence of byte "
               "functors applied between pixel copy and device write composed with the sequence between device read and pixel "
               "copy is the identity bit map. (W5) the row buffers on both sides have the same wire pixel type (channel order). "
               "A broken clause is reported with the two expressions. Not decided: the pixels' equality for the library-backed "
               "formats, and PNM's textual header parsing.")
W = "include/boost/gil/"
PATTERNS = ['^boost::gil::reader_backend::', '^boost::gil::reader::', '^boost::gil::scanline_reader::', '^boost::gil::writer::',
            '^boost::gil::writer_backend::', '^boost::gil::detail::is_allowed$', '^boost::gil::reader_base::',
            '^boost::gil::detail::(mirror_bits|negate_bits|swap_half_bytes|do_nothing)::',
            '^boost::gil::detail::row_buffer_helper_view::', '^boost::gil::detail::row_buffer_helper::',
            '^boost::gil::image_read_info::image_read_info$']
BIG = 2 ** 31 - 1


def fmt_of(f):
    m = re.search(r"(bmp|pnm|targa|png|jpeg|tiff|raw)_tag", f.get("cls", "") + f.get("full", ""))
    return m.group(1) if m else None


def balanced(s, start):
    d = 0
    for i in range(start, len(s)):
        if s[i] == "<":
            d += 1
        elif s[i] == ">":
            d -= 1
            if d == 0:
                return s[start:i + 1]
    return s[start:]


def wire_pixel(t):
    """the pixel (or bit-aligned reference) type mentioned first in a type string, const stripped"""
    t = t or ""
    best = None
    for pat in ("boost::gil::pixel<", "boost::gil::bit_aligned_pixel_reference<", "boost::gil::packed_pixel<"):
        i = t.find(pat)
        if i >= 0 and (best is None or i < best[0]):
            best = (i, pat)
    if best is None:
        return None
    i, pat = best
    return (pat[:-1] + balanced(t, i + len(pat) - 1)).replace("const ", "").replace(" const", "")


def first_call(n, suffix):
    r = R.find(n, lambda x: x.get("k") == "Call" and (x.get("callee") or {}).get("name", "").endswith(suffix))
    return r[0][0] if r else None


class IoExec(Exec):
    """models the I/O device: write_uintN appends to the stream, read_uintN consumes it; raw row I/O, seeks, row buffer
    views, row copies and loops are recorded as events"""

    def __init__(self, fns, ranges, mode, stream=None):
        Exec.__init__(self, fns, ranges, depth=8)
        self.mode = mode
        self.stream = list(stream or [])      # [(nbits, Poly|None, line)]
        self.pos = 0                          # read position (index into stream)
        self.bytes = Poly.const(0)            # bytes written / consumed so far (header part)
        self.vsize = {}                       # vector var key -> size poly
        self.loops = []
        self.used = set()                     # indices of stream fields whose value the reader uses
        self.tokens = []                      # text header tokens: ("lit", str) | ("int", Poly)
        self.tpos = 0
        self.nchar = 0

    def ev(self, n):
        n1 = R.strip(n)
        if isinstance(n1, dict) and n1.get("k") == "Str" and self.mode == "write":
            self.tokens.append(("lit", n1.get("v", "")))
            return None
        return Exec.ev(self, n)

    def next_token(self, line):
        """text header tokens as the reader's lexer sees them: literals are split into non-blank runs and blanks"""
        while self.tpos < len(self.tokens):
            t = self.tokens[self.tpos]
            self.tpos += 1
            return t
        raise Stop("reader expects more header tokens than the writer printed", line)

    def ev_event(self, kind, **kw):
        kw["kind"] = kind
        kw["loop"] = list(self.loops)
        kw["fn"] = self.trace[-1] if self.trace else None
        self.events.append(kw)

    def loop_stmt(self, s):
        """induction variables: every variable stepped by ++/-- in the increment expression (comma lists included). The one
        tested in the loop condition is the primary one and becomes the symbol y<depth>; the others are expressed through it
        (same iteration count), so `for (; row < end; ++row, ++dst_row)` relates row and dst_row."""
        info = {"line": s.get("line"), "iv": None, "init": None, "step": None, "trip": None}
        init = R.strip(s.get("init")) if s.get("init") is not None else None
        if init is not None:
            self.stmt(init)

        def incs(n, out):
            n = R.strip(n) if n is not None else None
            while n is not None and n.get("k") == "Paren":
                n = R.strip(n["e"])
            if n is None:
                return out
            if n.get("k") == "Binary" and n.get("op") == ",":
                incs(n["l"], out); incs(n["r"], out)
            elif n.get("k") == "Unary" and n.get("op") in ("++", "--"):
                vk = self.var_key(n["e"])
                if vk:
                    out.append((vk, 1 if n["op"] == "++" else -1))
            return out
        steps = incs(s.get("inc"), [])
        cond = R.strip(s.get("cond")) if s.get("cond") is not None else None
        primary = None
        bound = None
        op = None
        if cond is not None and cond.get("k") == "Binary" and cond.get("op") in ("<", "<=", ">", ">=", "!="):
            l, r_ = cond["l"], cond["r"]
            op = cond["op"]
            lk, rk = self.var_key(l), self.var_key(r_)
            names = [v for v, _ in steps]
            if lk in names:
                primary, bound = lk, r_
            elif rk in names:
                primary, bound, op = rk, l, R.FLIP[op]
        if primary is None and steps:
            primary = steps[0][0]
        pre = dict(self.env)
        # forget everything assigned in the loop
        for x, _ in R.find([s.get("body"), s.get("inc")], lambda x: x.get("k") in ("Assign", "CompoundAssign") or (x.get("k") == "Unary" and x.get("op") in ("++", "--"))):
            self.forget(x.get("l") if "l" in x else x.get("e"))
        name = "y%d" % len(self.loops)
        info["iv"] = name
        if primary is not None:
            pstep = dict(steps)[primary]
            pinit = pre.get(primary)
            info["init"], info["step"] = pinit, pstep
            self.env[primary] = Poly.atom(name)
            if pinit is not None:
                k = (Poly.atom(name) - pinit) if pstep == 1 else (pinit - Poly.atom(name))
                for v, st in steps:
                    if v != primary and pre.get(v) is not None:
                        self.env[v] = pre[v] + (k if st == 1 else -k)
                if bound is not None:
                    saved = self.env[primary]
                    b = self.ev(bound)
                    if b is not None and name not in b.atoms():
                        if pstep == 1 and op in ("<", "!="):
                            info["trip"] = b - pinit
                        elif pstep == 1 and op == "<=":
                            info["trip"] = b - pinit + Poly.const(1)
                        elif pstep == -1 and op in (">", "!="):
                            info["trip"] = pinit - b
                        elif pstep == -1 and op == ">=":
                            info["trip"] = pinit - b + Poly.const(1)
                if info["trip"] == Poly.const(1):
                    self.env[primary] = pinit          # a single iteration: the induction variable is its initial value
        self.loops.append(info)
        self.loop += 1
        base = dict(self.env)
        try:
            try:
                self.stmt(s.get("body"))
            except Stop as st:
                self.ev_event("stop_in_loop", why=st.why, line=st.line)
        finally:
            self.loop -= 1
            self.loops.pop()
        self.env = self.join([base, self.env])
        return None

    def stmt(self, s):
        s1 = R.strip(s) if s is not None else None
        if s1 is not None and s1.get("k") == "Call":
            self._stmt_call = id(s1)          # a call in statement position: its value is discarded
        if s1 is not None and s1.get("k") == "Decl":
            for d in s1.get("decls", []):
                if d.get("id") and d.get("init") is not None:
                    init = R.strip(d["init"])
                    ct = d.get("ctype") or d.get("type") or ""
                    if ct.startswith("std::vector<") and init.get("k") == "Construct" and init.get("args"):
                        self.vsize["L:%s" % d["id"]] = self.ev(init["args"][0])
                        self.ev_event("vector", name=d["name"], ctype=ct, size=self.vsize["L:%s" % d["id"]], line=s1.get("line"))
                    iv = first_call(init, "interleaved_view")
                    if iv is not None:
                        a = iv["args"]
                        self.ev_event("rowview", ctype=ct, width=self.ev(a[0]), rowbytes=self.ev(a[3]) if len(a) > 3 else None, line=s1.get("line"))
                    if "row_buffer_helper" in ct and init.get("k") == "Construct" and init.get("args"):
                        self.ev_event("rowhelper", ctype=ct, size=self.ev(init["args"][0]), line=s1.get("line"))
                    if re.search(r"(mirror_bits|negate_bits|swap_half_bytes|do_nothing)<", ct):
                        pass
        return Exec.stmt(self, s)

    def on_call(self, n):
        cal = n.get("callee") or {}
        name = cal.get("name", "")
        short = name.split("::")[-1]
        args = n.get("args", [])
        if name.endswith("image_view::width"):
            return Poly.atom("W")
        if name.endswith("image_view::height"):
            return Poly.atom("H")
        if name in ("boost::gil::io_error",):
            raise Stop("io_error(%s)" % (R.key(args[0]) if args else ""), n.get("line"))
        if name in ("boost::gil::io_error_if",):
            t = self.truth(args[0])
            if t is True:
                raise Stop("io_error_if(%s)" % R.key(args[0])[:120], n.get("line"))
            if t is None:
                before = dict(self.ranges)
                self.ranges = self.refine(args[0], False)          # execution continues only when the condition is false
                if self.ranges == before:
                    self.ev_event("maybe_error", cond=R.key(args[0])[:200], line=n.get("line"))
                else:
                    self.ev_event("guard", cond=R.key(args[0])[:200], line=n.get("line"))
            return None
        m = re.search(r"_device::(write|read)_uint(8|16|32)$", name)
        if m:
            nb = int(m.group(2))
            if m.group(1) == "write":
                v = self.ev(args[0])
                self.stream.append((nb, v, n.get("line"), R.key(args[0])))
                self.bytes = self.bytes + Poly.const(nb // 8)
                return None
            if self.pos >= len(self.stream):
                raise Stop("reader consumes more header fields than the writer produced", n.get("line"))
            wnb, v, wl, wk = self.stream[self.pos]
            if getattr(self, "_stmt_call", None) != id(R.strip(n)):
                self.used.add(self.pos)          # the reader looks at this field
            self.pos += 1
            self.bytes = self.bytes + Poly.const(nb // 8)
            if wnb != nb:
                self.ev_event("misaligned", reader_bits=nb, writer_bits=wnb, reader_line=n.get("line"), writer_line=wl, writer_expr=wk)
                # resynchronise conservatively: unknown value
                return None
            return v
        if re.search(r"_device::(write|read)$", name) and len(args) == 2:
            self.ev_event("raw" + short, size=self.ev(args[1]), sizekey=R.key(args[1]), line=n.get("line"), before=self.bytes)
            return None
        if re.search(r"_device::seek$", name):
            self.ev_event("seek", to=self.ev(args[0]), line=n.get("line"))
            return None
        if name in ("png_read_rows", "png_read_row", "jpeg_read_scanlines") or name.endswith("::read_scanline"):
            row = self.ev(args[1]) if name.endswith("::read_scanline") and len(args) > 1 else None
            self.ev_event("librow", lib=name.split("::")[-1], row=row, line=n.get("line"))
            return Poly.const(1) if name == "jpeg_read_scanlines" else None
        if name in ("png_write_row", "jpeg_write_scanlines") or name.endswith("::write_scaline") or name.endswith("::write_scanline"):
            row = self.ev(args[1]) if ("::write_sca" in name and len(args) > 1) else None
            self.ev_event("libwrite", lib=name.split("::")[-1], row=row, line=n.get("line"))
            return Poly.const(1) if name == "jpeg_write_scanlines" else None
        if re.search(r"_device::print_line$", name):
            self.ev(args[0])
            self.ev_event("text", key=R.key(args[0])[:100], line=n.get("line"))
            return None
        if name == "std::to_string":
            v = self.ev(args[0])
            self.tokens.append(("int", v))
            return v
        if name.endswith("reader_backend::read_char") and self.mode == "read" and self.tokens:
            # first char: the signature letter; second: the type digit (text header of PNM)
            self.nchar += 1
            kind, v = self.next_token(n.get("line"))
            if kind == "lit" and len(v) == 1:
                return Poly.const(ord(v))
            if kind == "int" and v is not None and v.is_const() and 0 <= v.const_value() <= 9:
                return Poly.const(48 + v.const_value())
            self.ev_event("text_mismatch", want="single character", got=(kind, repr(v)), line=n.get("line"))
            return None
        if name.endswith("reader_backend::read_int") and self.mode == "read" and self.tokens:
            kind, v = self.next_token(n.get("line"))
            if kind != "sep":
                self.ev_event("text_mismatch", want="blank before a number", got=(kind, repr(v)), line=n.get("line"))
                if kind == "int":
                    return v
            kind, v = self.next_token(n.get("line"))
            if kind != "int":
                self.ev_event("text_mismatch", want="number", got=(kind, repr(v)), line=n.get("line"))
                return None
            return v
        if name.endswith("std::vector::size") and n.get("obj") is not None:
            vk = self.var_key(n["obj"])
            return self.vsize.get(vk)
        if short == "copy_pixels":
            src = first_call(args[0], "subimage_view")
            if src is not None:
                a = src["args"]
                self.ev_event("rowcopy", y=self.ev(a[2]), x=self.ev(a[1]), w=self.ev(a[3]), h=self.ev(a[4]), line=n.get("line"))
            return None
        if name == "std::copy" and len(args) == 3:
            a0 = first_call(args[0], "row_begin")
            if a0 is not None:
                self.ev_event("rowcopy", y=self.ev(a0["args"][0]), x=Poly.const(0), w=Poly.atom("W"), h=Poly.const(1), line=n.get("line"),
                              dst_type=(R.strip(args[2]).get("type") or ""))
            return None
        if short == "read" and n.get("member_call") and "_cc_policy" in R.key(n.get("obj")):
            a2 = first_call(args[2], "row_begin")
            y = self.ev(a2["args"][0]) if a2 is not None else None
            self.ev_event("rowstore", y=y, beg=R.key(args[0]), begtype=(R.strip(args[0]).get("type") or ""), line=n.get("line"))
            return None
        if n.get("op") == "()" and re.search(r"(mirror_bits|negate_bits|swap_half_bytes|do_nothing)::operator\(\)$", name):
            self.ev_event("bytefn", fn=name.split("::")[-2], cls=cal.get("cls", ""), line=n.get("line"))
            return None
        if name.startswith("std::") or "::detail::" in name and short not in ("is_allowed",):
            for a in args:
                self.ev(a)
            return None
        return NotImplemented


DEVICES = ["file_stream_device", "file_stream_device"]      # [writer side, reader side]; the thorough tier also runs ostream -> istream


def pick(fns, suffix, fmt, must=()):
    dev = DEVICES[0] if suffix.startswith("writer") else DEVICES[1]
    out = [f for f in fns if f["name"].endswith(suffix) and fmt_of(f) == fmt and (dev + "<") in f["full"] and all(m in f["full"] for m in must)]
    return out


def run(rep):
    C.need_tools(C.ASTDUMP, C.IRDUMP)
    wd = C.workdir("C12")
    d = C.astdump(os.path.join(C.DRIVERS, "c12_driver.cpp"), os.path.join(wd, "io.json"), PATTERNS, defs=C.IO_DEFS)
    if d.get("errors"):
        raise C.AnalysisBroken("drivers/c12_driver.cpp has compile errors")
    fns = d["functions"]
    rep.units.append("drivers/c12_driver.cpp: %d instantiated I/O functions" % len(fns))
    rep.trusted += ["clang front end (instantiated AST, constant evaluation)", "harness/ast/absexec.py (constant/polynomial propagation)",
                    "harness/ir/bits.py"]
    rep.assumptions += ["dimensions fit the header fields of the format (BMP: 31 bits, TARGA: 16 bits -- larger views are silently truncated by the writers, noted in DESIGN.md)",
                        "PNM: the textual header lexer (read_char/read_int) is modelled as a tokenizer: one signature letter, the type digit, blank-separated decimal numbers"]
    streams(rep, fns)
    bitchains(rep, fns, wd)
    scanline_clone(rep, fns)
    devices(rep, wd)
    tables(rep, wd)
    tiff_tiles(rep)
    lib_dimensions(rep)
    lib_wire_pixels(rep)
    lib_sample_values(rep)
    lib_row_order(rep)


def tmpl_arg(full, member):
    i = full.rfind("::" + member + "<")
    if i < 0:
        return None
    return balanced(full, i + len(member) + 2)[1:-1]


PIX = {"rgb8": "red_t, boost::gil::green_t, boost::gil::blue_t>, boost::mp11::mp_list<std::integral_constant<int, 0>, std::integral_constant<int, 1>, std::integral_constant<int, 2>>>> *",
       "rgba8": "alpha_t>, boost::mp11::mp_list<std::integral_constant<int, 0>, std::integral_constant<int, 1>, std::integral_constant<int, 2>, std::integral_constant<int, 3>>>> *",
       "gray8": "pixel<unsigned char, boost::gil::layout<boost::mp11::mp_list<boost::gil::gray_color_t>",
       "gray1": "bit_aligned_pixel_reference<unsigned char, boost::mp11::mp_list<std::integral_constant<unsigned int, 1>>"}
CASES = [("bmp", "rgb8"), ("bmp", "rgba8"), ("targa", "rgb8"), ("targa", "rgba8"), ("pnm", "gray8"), ("pnm", "rgb8"), ("pnm", "gray1")]
DIM_MAX = {"bmp": BIG, "targa": BIG, "pnm": BIG}


def run_case(fns, fmt, pix):
    """abstractly execute writer::apply<View> then reader_backend::read_header + reader::apply<View>"""
    ws = [f for f in pick(fns, "writer::apply", fmt) if PIX[pix] in (tmpl_arg(f["full"], "apply") or "")]
    if not ws:
        raise C.AnalysisBroken("no writer::apply instantiation for %s/%s" % (fmt, pix))
    wf = ws[0]
    view_t = tmpl_arg(wf["full"], "apply")
    ranges = {"W": (1, DIM_MAX[fmt]), "H": (1, DIM_MAX[fmt])}
    wx = IoExec(fns, ranges, "write")
    wstop = None
    try:
        wx.invoke(wf, [])
    except Stop as s:
        wstop = s
    rx = IoExec(fns, dict(wx.ranges), "read", stream=wx.stream)
    rstop = None
    hdr = pick(fns, "reader_backend::read_header", fmt)
    ra = [f for f in pick(fns, "reader::apply", fmt, must=("read_and_no_convert",)) if tmpl_arg(f["full"], "apply") == view_t]
    if not hdr or not ra:
        raise C.AnalysisBroken("no reader instantiation for %s/%s" % (fmt, pix))
    return wf, wx, wstop, hdr[0], ra[0], rx




def split_tokens(tokens):
    """literal text -> characters / blanks / embedded numbers, as a lexer sees them"""
    out = []
    for kind, v in tokens:
        if kind == "int":
            out.append((kind, v))
            continue
        for m in re.finditer(r"\s+|\d+|\S", v):
            t = m.group(0)
            if t.isspace():
                if not (out and out[-1][0] == "sep"):
                    out.append(("sep", t))
            elif t.isdigit():
                out.append(("int", Poly.const(int(t))))
            else:
                out.append(("lit", t))
    return out


def run_case(fns, fmt, pix, partial=False):
    """abstractly execute writer::apply<View>, then reader_backend::read_header and reader::apply<View> on its output;
    partial: the reader is asked for the sub-rectangle (X0,Y0,DX,DY) instead of the whole image"""
    ws = [f for f in pick(fns, "writer::apply", fmt) if PIX[pix] in (tmpl_arg(f["full"], "apply") or "")]
    if not ws:
        raise C.AnalysisBroken("no writer::apply instantiation for %s/%s" % (fmt, pix))
    wf = ws[0]
    view_t = tmpl_arg(wf["full"], "apply")
    ranges = {"W": (1, DIM_MAX[fmt]), "H": (1, DIM_MAX[fmt])}
    wx = IoExec(fns, ranges, "write")
    res = {"wf": wf, "wx": wx, "wstop": None, "hstop": None, "astop": None}
    try:
        wx.invoke(wf, [])
    except Stop as s:
        res["wstop"] = s
    rx = IoExec(fns, dict(wx.ranges), "read", stream=wx.stream)
    rx.tokens = split_tokens(wx.tokens)
    hdr = pick(fns, "reader_backend::read_header", fmt)
    ra = [f for f in pick(fns, "reader::apply", fmt, must=("read_and_no_convert",)) if tmpl_arg(f["full"], "apply") == view_t]
    if not hdr or not ra:
        raise C.AnalysisBroken("no reader instantiation for %s/%s" % (fmt, pix))
    res.update(hdr=hdr[0], ra=ra[0], rx=rx)
    # defaults of image_read_info<tag>
    for f in fns:
        if f["name"] == "boost::gil::image_read_info::image_read_info" and fmt_of(f) == fmt and not f["params"]:
            for ini in f.get("inits", []):
                if ini.get("member"):
                    rx.env["M:_info." + ini["member"]] = rx.ev(ini["init"])
            break
    try:
        rx.invoke(hdr[0], [])
    except Stop as s:
        res["hstop"] = s
    res["info"] = {k[8:]: v for k, v in rx.env.items() if k.startswith("M:_info.")}
    res["hdr_events"] = list(rx.events)
    res["hdr_bytes"] = rx.bytes
    res["hdr_fields"] = rx.pos
    rx.events = []
    # reader_backend's constructor: the whole image is requested
    rx.env["M:_settings._top_left.x"] = Poly.const(0)
    rx.env["M:_settings._top_left.y"] = Poly.const(0)
    rx.env["M:_settings._dim.x"] = rx.env.get("M:_info._width")
    rx.env["M:_settings._dim.y"] = rx.env.get("M:_info._height")
    if partial:
        for k, a in (("_top_left.x", "X0"), ("_top_left.y", "Y0"), ("_dim.x", "DX"), ("_dim.y", "DY")):
            rx.ranges[a] = (1, DIM_MAX[fmt])
            rx.env["M:_settings." + k] = Poly.atom(a)
    try:
        rx.invoke(ra[0], [])
    except Stop as s:
        res["astop"] = s
    return res


def dedupe(evs):
    out, seen = [], set()
    for e in evs:
        k = repr(sorted((a, repr(b)) for a, b in e.items()))
        if k not in seen:
            seen.add(k)
            out.append(e)
    return out


def row_position(ev, start):
    """file position of view row y for a raw row transfer inside a single loop: start + k*size with k the iteration
    index; returns (position polynomial in y, size) or None"""
    if len(ev["loop"]) != 1 or ev["size"] is None:
        return None
    lp = ev["loop"][0]
    if lp["init"] is None or lp["step"] not in (1, -1):
        return None
    y = Poly.atom("y")
    k = (y - lp["init"]) if lp["step"] == 1 else (lp["init"] - y)
    return start + k * ev["size"]


def streams(rep, fns):
    rep.rule("W3a the reader's read_header, executed on the header the writer emits (symbols W,H), reaches no io_error, consumes every field with the width it was written with, and recovers width=W, height=H")
    rep.rule("W3b the reader accepts the file for the same pixel type (is_allowed<View> is true on the recovered header) and dispatches to a row reader")
    rep.rule("W3c bytes per row: size passed to device.write per row == size passed to device.read per row (polynomials in W)")
    rep.rule("W3d position of view row y in the file is the same polynomial in (W,H,y) for writer and reader (data offset, padding, row order)")
    rep.rule("W5 the row buffers have the same wire pixel type on both sides (channel order / bit layout)")
    rep.rule("W4 byte functors applied writer-side after the pixel copy composed with those applied reader-side before the pixel copy are the identity bit map")
    pairs = [("file_stream_device", "file_stream_device")] + ([("ostream_device", "istream_device")] if rep.tier == "thorough" else [])
    for (wdev, rdev), (fmt, pix) in itertools.product(pairs, CASES):
        DEVICES[0], DEVICES[1] = wdev, rdev
        case = "%s:%s%s" % (fmt, pix, "" if wdev == "file_stream_device" else ":ostream->istream")
        r = run_case(fns, fmt, pix)
        wx, rx = r["wx"], r["rx"]
        where_w = W + "extension/io/%s/detail/write.hpp" % fmt
        where_r = W + "extension/io/%s/detail/read.hpp" % fmt
        where_h = W + "extension/io/%s/detail/reader_backend.hpp" % fmt
        # ---- W3a
        rep.count("obligations:W3a")
        info = r["info"]
        prob = []
        if r["wstop"] is not None:
            prob.append("writer raises %s at line %s" % (r["wstop"].why, r["wstop"].line))
        if r["hstop"] is not None:
            prob.append("reader rejects the written header: %s at reader_backend.hpp:%s" % (r["hstop"].why, r["hstop"].line))
        for e in r["hdr_events"]:
            if e["kind"] in ("misaligned", "text_mismatch", "maybe_error"):
                prob.append({k: v if isinstance(v, (int, str)) else repr(v) for k, v in e.items() if k not in ("loop", "fn")})
        if wx.stream and r["hdr_fields"] != len(wx.stream):
            prob.append("reader consumed %d of the %d header fields written" % (r["hdr_fields"], len(wx.stream)))
        if rx.tokens and rx.tpos < len([t for t in rx.tokens if t[0] != "sep"]) and rx.tpos < len(rx.tokens) - 1:
            prob.append("reader consumed %d of the %d header tokens written" % (rx.tpos, len(rx.tokens)))
        for fi, (nb, v, line, kk) in enumerate(wx.stream):
            if v is None or v.is_const() or fi not in rx.used:
                continue            # constant fields and fields the reader skips cannot break the round trip
            lo, hi = wx.bounds(v)
            if lo is None or lo < 0 or hi >= 2 ** nb:
                prob.append("the %d-bit header field `%s` (write.hpp:%s) does not hold its value %r for every image the writer accepts (range [%s, %s]): the excess is silently truncated" % (nb, kk, line, v, lo, hi))
        if info.get("_width") != Poly.atom("W") or info.get("_height") != Poly.atom("H"):
            prob.append("recovered width=%r height=%r (written W,H)" % (info.get("_width"), info.get("_height")))
        ev_hdr = {"writer_fields": ["%d:%r" % (s[0], s[1]) for s in wx.stream] or [("%s:%r" % t) for t in rx.tokens],
                  "recovered": {k: repr(v) for k, v in sorted(info.items())}}
        if prob:
            rep.violation("W3a-header", "W3a:" + case, where_h, dict(ev_hdr, problems=prob))
        else:
            rep.ok("W3a-header", "W3a:" + case, ev_hdr)
        # ---- W3b
        rep.count("obligations:W3b")
        wev, rev = dedupe(wx.events), dedupe(rx.events)
        wrows = [e for e in wev if e["kind"] == "rawwrite" and e["loop"]]
        rrows = [e for e in rev if e["kind"] == "rawread" and e["loop"]]
        rstores = [e for e in rev if e["kind"] == "rowstore"]
        prob = []
        if r["astop"] is not None:
            prob.append("reader::apply raises %s at read.hpp:%s for a file this writer produced" % (r["astop"].why, r["astop"].line))
        for e in rev:
            if e["kind"] == "maybe_error":
                prob.append("undecided error condition %s at read.hpp:%s" % (e["cond"], e["line"]))
        if not rrows or not rstores:
            prob.append("no row reader reached")
        if prob:
            rep.violation("W3b-accept", "W3b:" + case, where_r, {"problems": prob, "recovered": ev_hdr["recovered"]})
        else:
            rep.ok("W3b-accept", "W3b:" + case, {"row_reader": sorted({e["fn"] for e in rrows})})
        if len(wrows) != 1:
            rep.fail_analysis("%s: expected exactly one row write site in the writer, found %d" % (case, len(wrows)))
            continue
        wrow = wrows[0]
        # the reader may have a skip loop (rows above the requested rectangle) and the main loop: the main loop is the one with the store
        main = [e for e in rrows if any(s["loop"] == e["loop"] for s in rstores)]
        if len(main) != 1:
            if not prob:
                rep.fail_analysis("%s: expected one row read site feeding the pixel copy, found %d" % (case, len(main)))
            continue
        rrow = main[0]
        rstore = [s for s in rstores if s["loop"] == rrow["loop"]][0]
        # ---- W3c
        rep.count("obligations:W3c")
        if wrow["size"] is not None and wrow["size"] == rrow["size"]:
            rep.ok("W3c-row-bytes", "W3c:" + case, {"bytes_per_row": repr(wrow["size"])})
        else:
            rep.violation("W3c-row-bytes", "W3c:" + case, where_w + ":%s vs read.hpp:%s" % (wrow["line"], rrow["line"]),
                          {"writer_bytes_per_row": repr(wrow["size"]), "writer_expr": wrow["sizekey"], "reader_bytes_per_row": repr(rrow["size"]),
                           "reader_expr": rrow["sizekey"], "note": "floorN(e) is floor(e/N)"})
        # ---- W3d
        rep.count("obligations:W3d")
        wcopy = [e for e in wev if e["kind"] == "rowcopy" and e["loop"] == wrow["loop"]]
        wpos = row_position(wrow, wrow["before"])
        y = Poly.atom("y")
        okw = bool(wcopy) and wcopy[0]["y"] == Poly.atom(wrow["loop"][0]["iv"]) and wcopy[0]["x"] == Poly.const(0) and wcopy[0]["w"] == Poly.atom("W")
        seeks_in = [e for e in rev if e["kind"] == "seek" and e["loop"] == rrow["loop"]]
        seeks_before = [e for e in rev if e["kind"] == "seek" and not e["loop"]]
        if seeks_in and seeks_in[0]["to"] is not None:
            rpos = seeks_in[0]["to"].subst({rrow["loop"][0]["iv"]: y})
        else:
            start = seeks_before[-1]["to"] if seeks_before else r["hdr_bytes"]
            skipped = [e for e in rrows if e is not rrow]
            rpos = row_position(rrow, start) if start is not None else None
        okr = rstore["y"] == Poly.atom(rrow["loop"][0]["iv"])
        if okw and okr and wpos is not None and rpos is not None and wpos == rpos:
            rep.ok("W3d-row-position", "W3d:" + case, {"position_of_row_y": repr(wpos)})
        else:
            rep.violation("W3d-row-position", "W3d:" + case, where_w + ":%s vs read.hpp:%s" % (wrow["line"], rrow["line"]),
                          {"writer_position_of_row_y": repr(wpos), "reader_position_of_row_y": repr(rpos),
                           "writer_copies_row": repr(wcopy[0]["y"]) if wcopy else None, "reader_stores_row": repr(rstore["y"]),
                           "writer_loop": {k: repr(v) for k, v in wrow["loop"][0].items()}, "reader_loop": {k: repr(v) for k, v in rrow["loop"][0].items()}})
        # ---- W5
        rep.count("obligations:W5")
        wt = [wire_pixel(e["ctype"]) for e in wev if e["kind"] in ("rowview",)] + [wire_pixel(e.get("dst_type")) for e in wev if e["kind"] == "rowcopy" and e.get("dst_type")]
        rt = [wire_pixel(e["ctype"]) for e in rev if e["kind"] in ("rowview", "rowhelper") and e["fn"] == rrow["fn"]]
        wt, rt = [t for t in wt if t], [t for t in rt if t]
        if wt and rt and set(wt) == set(rt) and len(set(wt)) == 1:
            rep.ok("W5-wire-pixel", "W5:" + case, {"wire_pixel": short_type(wt[0])})
        elif not wt or not rt:
            rep.fail_analysis("%s: row buffer type not found (writer %s, reader %s)" % (case, wt, rt))
        else:
            rep.violation("W5-wire-pixel", "W5:" + case, where_w + " vs read.hpp", {"writer_row_pixel": [short_type(t) for t in set(wt)], "reader_row_pixel": [short_type(t) for t in set(rt)]})
        # ---- W4 (chains collected here, decided in bitchains)
        wchain = [e for e in wev if e["kind"] == "bytefn" and e["loop"] == wrow["loop"]]
        rchain = [e for e in rev if e["kind"] == "bytefn" and e["loop"] == rrow["loop"]]
        CHAINS[case] = ([(e["cls"], e["line"]) for e in wchain], [(e["cls"], e["line"]) for e in rchain], where_w, where_r)
    DEVICES[0] = DEVICES[1] = "file_stream_device"
    for k in ("W3a", "W3b", "W3c", "W3d", "W5"):
        rep.floor("obligations:" + k, 5)


CHAINS = {}


def short_type(t):
    return re.sub(r"boost::(gil|mp11)::|std::integral_constant<(unsigned )?int, (\d+)>", lambda m: m.group(3) or "", t or "")


BIT_DRIVER = '''#include <vector>
#include <type_traits>
#include <boost/gil/io/bit_operations.hpp>
using buf_t = std::vector<unsigned char>;
namespace d = boost::gil::detail;
extern "C" {
unsigned char w_fn_mirror_bits(unsigned char c){ return d::mirror_bits<buf_t, std::true_type>::mirror(c); }
void w_fn_negate_bits(unsigned char* p){ d::negate_bits<buf_t, std::true_type> f; f(p, 1); }
void w_fn_swap_half_bytes(unsigned char* p){ d::swap_half_bytes<buf_t, std::true_type> f; f(p, 1); }
}
'''
IDENT = [(i, False) for i in range(8)]


def byte_maps(wd):
    """per-byte bit maps of the three byte functors: result bit i = (source bit, negated)"""
    from .ir.bits import BitsInterp
    src = os.path.join(wd, "bitops.cpp")
    open(src, "w").write(BIT_DRIVER)
    bc = C.emit_ir(src, src[:-4] + ".bc", extra=["-fno-access-control"], defs=C.IO_DEFS)
    d = C.irdump(bc, src[:-4] + ".json", extra=["--unroll"])
    out = {}
    for f in d["functions"]:
        if not f["is_root"]:
            continue
        it = BitsInterp(f)
        it.run()
        if f["name"] == "w_fn_mirror_bits":
            bits = it.ret_bits()[:8]
        else:
            mem = it.final_memory()
            bits = None
            for k, v in mem.items():
                bits = v
        m = []
        for b in bits or []:
            neg = False
            if isinstance(b, tuple) and b and b[0] == "not":
                neg, b = True, b[1:]
            if isinstance(b, tuple) and len(b) == 3 and b[0] == "in":
                m.append((b[2], neg))
            else:
                m.append(None)
        out[f["name"][5:]] = m
    return out


def compose(maps):
    """apply byte maps left to right"""
    cur = list(IDENT)
    for m in maps:
        nxt = []
        for i in range(8):
            if m[i] is None or cur[m[i][0]] is None:
                nxt.append(None)
            else:
                s, neg = cur[m[i][0]]
                nxt.append((s, neg != m[i][1]))
        cur = nxt
    return cur


def functor_rules(rep, fns):
    """tie operator()(Buffer&) of the byte functors to the per-byte function analysed in byte_maps"""
    rep.rule("W4a mirror_bits<.,true>: the table is lookup_[i] = mirror(i) for i = 0..255 and operator() replaces every byte c by lookup_[c]; "
             "negate_bits/swap_half_bytes<.,true>::operator()(Buffer&) apply negate/swap to every byte; the <.,false> versions are empty")
    by = {}
    for f in fns:
        m = re.match(r"boost::gil::detail::(mirror_bits|negate_bits|swap_half_bytes)::(.*)$", f["name"])
        if m:
            by.setdefault((m.group(1), "true" if "bool, true" in f["cls"] else "false", m.group(2)), f)
    res = {}
    for (cls, flag, member), f in sorted(by.items()):
        keys = [R.key(x) for x, _ in R.find(f["body"], lambda x: x.get("k") in ("Call", "Assign"))] if f.get("body") else []
        if member == "operator()" and len(f["params"]) == 1:
            if flag == "false":
                res[(cls, flag)] = (len(keys) == 0, keys)
                continue
            per = {"mirror_bits": "lookup", "negate_bits": "negate", "swap_half_bytes": "swap"}[cls]
            ok = any(k.startswith("for_each(%s.begin(),%s.end()," % (f["params"][0]["name"], f["params"][0]["name"])) and per in k for k in keys)
            if cls == "mirror_bits":
                lam = [R.key(x) for x, _ in R.find(f["body"], lambda x: x.get("k") == "Call" and x["callee"]["name"].endswith("::lookup"))]
                ok = ok or bool(lam) and any(k.startswith("for_each(") for k in keys)
            res[(cls, flag)] = (ok, keys)
        if cls == "mirror_bits" and flag == "true" and member == "lookup":
            res[("mirror_bits", "lookup")] = ([k for k in keys if " = " in k] == ["(c = lookup_[c])"], keys)
        if cls == "mirror_bits" and flag == "true" and member == "mirror_bits":
            do = R.find(f["body"], lambda x: x.get("k") == "Do")
            ok = False
            if do:
                dk = [R.key(x) for x, _ in R.find(do[0][0].get("body"), lambda x: x.get("k") in ("Assign",))]
                ck = R.key(do[0][0].get("cond"))
                decl = [dd for x, _ in R.find(f["body"], lambda x: x.get("k") == "Decl") for dd in x["decls"] if dd.get("name") == "i"]
                ok = dk == ["(lookup_[i] = mirror(i))"] and ck == "((i++) != 255)" and bool(decl) and R.key(decl[0].get("init")) == "0" and "unsigned char" in (decl[0].get("ctype") or decl[0].get("type") or "")
            res[("mirror_bits", "table")] = (ok, [])
    return res


def bitchains(rep, fns, wd):
    maps = byte_maps(wd)
    fr = functor_rules(rep, fns)
    for k, (ok, keys) in sorted(fr.items()):
        rep.count("obligations:W4a")
        if ok:
            rep.ok("W4a-functor", "W4a:%s:%s" % k, keys[:3])
        else:
            rep.violation("W4a-functor", "W4a:%s:%s" % k, W + "io/bit_operations.hpp", {"statements": keys[:8]})
    rep.floor("obligations:W4a", 5)
    for name, m in sorted(maps.items()):
        rep.count("obligations:W4b")
        want = {"mirror_bits": [(7 - i, False) for i in range(8)], "negate_bits": [(i, True) for i in range(8)],
                "swap_half_bytes": [((i + 4) % 8, False) for i in range(8)]}[name]
        if m == want:
            rep.ok("W4b-byte-map", "W4b:" + name, {"bit_i_from": m})
        else:
            rep.violation("W4b-byte-map", "W4b:" + name, W + "io/bit_operations.hpp", {"computed": m, "documented": want})
    rep.floor("obligations:W4b", 3)

    def chain_map(chain):
        ms = []
        for cls, line in chain:
            nm = re.search(r"detail::(\w+)<", cls).group(1)
            if "bool, false" in cls or nm == "do_nothing":
                continue
            ms.append(maps[nm])
        return compose(ms)
    for case, (wc, rc, where_w, where_r) in sorted(CHAINS.items()):
        rep.count("obligations:W4")
        total = compose([chain_map(wc), chain_map(rc)])
        names = lambda ch: ["%s%s" % (re.search(r"detail::(\w+)<", c).group(1), "" if "bool, true" in c else "<no-op>") for c, l in ch]
        if total == IDENT:
            rep.ok("W4-bit-order", "W4:" + case, {"writer": names(wc), "reader": names(rc)})
        else:
            rep.violation("W4-bit-order", "W4:" + case, where_r + ":%s" % (rc[-1][1] if rc else "?"),
                          {"writer_applies": names(wc), "reader_applies": names(rc),
                           "file_bit_to_pixel_bit": ["bit %d <- %s%s" % (i, "~" if t and t[1] else "", "bit %d" % t[0] if t else "?") for i, t in enumerate(total)],
                           "problem": "after write+read, bit i of a row byte is not the bit the writer's pixel iterator stored there: pixels of a sub-byte row come back permuted/negated"})
    rep.floor("obligations:W4", 5)


def devices(rep, wd):
    from . import p13
    rep.rule("W2 for N in 8,16,32 and every (output device, input device) pair: the bytes write_uintN hands to the raw write are "
             "x's bytes in little-endian order and read_uintN assembles them in the same order (read_uintN o write_uintN = id)")
    res = p13.device_bits(wd)
    for n in (8, 16, 32):
        for od in ("file", "ostream"):
            for idv in ("file", "istream"):
                rep.count("obligations:W2")
                w, r = res.get("w_w%d_%s" % (n, od)), res.get("w_r%d_%s" % (n, idv))
                key = "W2:uint%d:%s->%s" % (n, od, idv)
                okw = False
                if w and len(w[1]) == 1 and len(w[1][0]) == n // 8:
                    okw = all(w[1][0][j][i] == ("in", "a1", 8 * j + i) for j in range(n // 8) for i in range(8))
                okr = bool(r) and p13.le_read(r[1], n)
                if okw and okr:
                    rep.ok("W2-int-codec", key, "little-endian both ways")
                else:
                    rep.violation("W2-int-codec", key, W + "io/device.hpp", {"writer_bytes": str(w[1])[:400] if w else None, "reader_bits": str(r[1])[:400] if r else None,
                                                                            "writer_little_endian": okw, "reader_little_endian": okr})
    rep.floor("obligations:W2", 12)


# pixel types offered to every format: (tag, C++ pixel type, channel value type, number of channels)
TPIX = [("gray1", "get_pixel_type<gray1_image_t::view_t>::type"), ("gray2", "get_pixel_type<gray2_image_t::view_t>::type"),
        ("gray4", "get_pixel_type<gray4_image_t::view_t>::type"),
        ("gray8", "gray8_pixel_t"), ("gray16", "gray16_pixel_t"), ("gray32f", "gray32f_pixel_t"),
        ("rgb8", "rgb8_pixel_t"), ("rgb16", "rgb16_pixel_t"), ("rgb32f", "rgb32f_pixel_t"), ("bgr8", "bgr8_pixel_t"),
        ("rgba8", "rgba8_pixel_t"), ("rgba16", "rgba16_pixel_t"), ("bgra8", "bgra8_pixel_t"), ("cmyk8", "cmyk8_pixel_t")]
TFMT = ["bmp", "pnm", "targa", "png", "jpeg", "tiff"]
PARAMS = {"png": ["_bit_depth", "_color_type"], "bmp": [], "targa": [], "pnm": [], "jpeg": [], "tiff": []}
RPARAMS = {"png": ["_bit_depth", "_color_type"], "bmp": ["bpp"], "targa": ["bpp"], "pnm": ["_asc_type", "_bin_type"], "jpeg": [], "tiff": []}


def tables(rep, wd):
    rep.rule("W1a for every pixel type P and format F: is_write_supported<P,F> implies is_read_supported<P,F> (what can be written can be read back into the same type)")
    rep.rule("W1b where both hold, the header parameters derived from P agree: PNG writer (_bit_depth,_color_type) == reader table and == "
             "(bits of P's channel, channel count of the colour type per the PNG specification); BMP/TARGA: the depth written "
             "(8*num_channels) == reader table bpp == channel bits*num_channels demanded by is_allowed; PNM: the type the writer prints "
             "(W3a) is the reader table's _bin_type")
    L = ['#include "vf_common.hpp"', "#include <boost/gil/extension/io/bmp.hpp>", "#include <boost/gil/extension/io/pnm.hpp>",
         "#include <boost/gil/extension/io/targa.hpp>", "#include <boost/gil/extension/io/png.hpp>", "#include <boost/gil/extension/io/jpeg.hpp>",
         "#include <boost/gil/extension/io/tiff.hpp>", "using namespace vf;",
         "template <class P> struct chbits { using c = typename channel_traits<typename element_type<P>::type>::value_type; static const int value = detail::unsigned_integral_num_bits<c>::value; };",
         "template <class P> struct chbits_safe { static const int value = -1; };",
         'extern "C" {']
    for pn, pt in TPIX:
        L.append("extern const int t_%s_nch = num_channels<%s>::value;" % (pn, pt))
        for f in TFMT:
            L.append("extern const int t_%s_%s_w = is_write_supported<%s, %s_tag>::value;" % (pn, f, pt, f))
            L.append("extern const int t_%s_%s_r = is_read_supported<%s, %s_tag>::value;" % (pn, f, pt, f))
            for prm in PARAMS[f]:
                L.append("extern const int t_%s_%s_w%s = is_write_supported<%s, %s_tag>::%s;" % (pn, f, prm, pt, f, prm))
            for prm in RPARAMS[f]:
                L.append("extern const int t_%s_%s_r%s = is_read_supported<%s, %s_tag>::%s;" % (pn, f, prm, pt, f, prm))
    for pn, pt in TPIX:
        if pn not in ("gray32f", "rgb32f", "gray1", "gray2", "gray4"):
            L.append("extern const int t_%s_chbits = chbits<%s>::value;" % (pn, pt))
    L.append("}")
    src = os.path.join(wd, "tables.cpp")
    open(src, "w").write("\n".join(L) + "\n")
    ll = src[:-4] + ".ll"
    rc, out, err = C.run([C.CLANGXX, "-S", "-emit-llvm", "-O0"] + C.BASE_FLAGS + C.IO_DEFS + [src, "-o", ll])
    if rc != 0:
        raise C.AnalysisBroken("tables.cpp does not compile: " + err[-1500:])
    vals = {}
    for m in re.finditer(r"^@(t_\w+) = .*constant i32 (-?\d+)", open(ll).read(), re.M):
        vals[m.group(1)] = int(m.group(2))
    PNG_CH = {0: 1, 2: 3, 4: 2, 6: 4}      # PNG specification: colour type -> samples per pixel
    nsup = 0
    for pn, pt in TPIX:
        for f in TFMT:
            w, r = vals.get("t_%s_%s_w" % (pn, f)), vals.get("t_%s_%s_r" % (pn, f))
            if w is None or r is None:
                rep.fail_analysis("table constant t_%s_%s missing" % (pn, f))
                continue
            rep.count("obligations:W1a")
            key = "W1a:%s:%s" % (f, pn)
            where = W + "extension/io/%s/detail/supported_types.hpp" % f
            if w and not r:
                rep.violation("W1a-read-back", key, where, {"is_write_supported": bool(w), "is_read_supported": bool(r)})
            else:
                rep.ok("W1a-read-back", key, {"write": bool(w), "read": bool(r)})
            if not (w and r):
                continue
            nsup += 1
            nch, cb = vals["t_%s_nch" % pn], vals.get("t_%s_chbits" % pn)
            prob = {}
            if f == "png":
                wb, wc = vals["t_%s_png_w_bit_depth" % pn], vals["t_%s_png_w_color_type" % pn]
                rb, rc_ = vals["t_%s_png_r_bit_depth" % pn], vals["t_%s_png_r_color_type" % pn]
                if (wb, wc) != (rb, rc_):
                    prob["writer_vs_reader_table"] = {"writer": (wb, wc), "reader": (rb, rc_)}
                if cb is not None and wb != cb:
                    prob["bit_depth"] = {"written": wb, "channel_bits_demanded_by_is_allowed": cb}
                if PNG_CH.get(wc) != nch:
                    prob["color_type"] = {"written": wc, "samples_per_pixel": PNG_CH.get(wc), "num_channels": nch}
            elif f in ("bmp", "targa"):
                rb = vals["t_%s_%s_rbpp" % (pn, f)]
                if cb is not None and not (rb == cb * nch == 8 * nch):
                    prob["depth"] = {"reader_table_bpp": rb, "channel_bits*num_channels": cb * nch, "written_by_writer": 8 * nch}
            elif f == "pnm":
                want = {("gray1"): 4, ("gray8"): 5, ("rgb8"): 6}.get(pn)
                rb = vals["t_%s_pnm_r_bin_type" % pn]
                if want is not None and rb != want:
                    prob["bin_type"] = {"reader_table": rb, "PNM specification": want}
            else:
                continue
            rep.count("obligations:W1b")
            if prob:
                rep.violation("W1b-parameters", "W1b:%s:%s" % (f, pn), where, prob)
            else:
                rep.ok("W1b-parameters", "W1b:%s:%s" % (f, pn), "agree")
    rep.floor("obligations:W1a", len(TPIX) * len(TFMT))
    rep.floor("obligations:W1b", 10)
    rep.analysed["supported_round_trip_pairs"] = nsup


def scanline_clone(rep, fns):
    rep.rule("W4s the PNM scanline reader applies the same byte functors to a 1-bit row, in the same order, as the image reader")
    def seq(f):
        return [x["callee"]["name"].split("::")[-2] for x, _ in R.find(f["body"], lambda x: x.get("k") == "Call" and x.get("op") == "()" and
                re.search(r"(mirror_bits|negate_bits|swap_half_bytes)::operator\(\)$", (x.get("callee") or {}).get("name", "")))]
    a = [f for f in fns if f["name"].endswith("scanline_reader::read_binary_bit_row") and fmt_of(f) == "pnm"]
    b = [f for f in fns if f["name"].endswith("reader::read_bin_data") and fmt_of(f) == "pnm" and "bit_aligned_pixel_reference" in (tmpl_arg(f["full"], "read_bin_data") or "").split("image_view")[1]]
    rep.count("obligations:W4s")
    if not a or not b:
        rep.fail_analysis("pnm scanline_reader::read_binary_bit_row or reader::read_bin_data<gray1> not instantiated")
        return
    sa, sb = seq(a[0]), seq(b[0])
    if sa == sb and sa:
        rep.ok("W4s-scanline-clone", "W4s:pnm", sa)
    else:
        rep.violation("W4s-scanline-clone", "W4s:pnm", W + "extension/io/pnm/detail/scanline_read.hpp:%s" % a[0]["line"], {"scanline_reader": sa, "reader": sb})
    rep.floor("obligations:W4s", 1)


def remaining_extent(rep, fns, rule, prefix, where_filter, floor):
    """edge-tile rule shared by C12 (tiff writer) and C13 (tiff tile readers): `(a + T < L) ? T : E` must have E == L - a"""
    import itertools
    seen = {}
    for f in fns:
        if fmt_of(f) != "tiff" or not where_filter(f) or f.get("body") is None:
            continue
        for d, _ in R.find(f["body"], lambda x: x.get("k") == "Decl"):
            for dd in d["decls"]:
                init = R.strip(dd.get("init")) if dd.get("init") is not None else None
                while init is not None and init.get("k") == "Paren":
                    init = R.strip(init["e"])
                if init is None or init.get("k") != "Cond":
                    continue
                c = R.strip(init["cond"])
                while c.get("k") == "Paren":
                    c = R.strip(c["e"])
                if c.get("k") != "Binary" or c.get("op") != "<":
                    continue
                lhs = R.poly_of(c["l"])
                L = R.poly_of(c["r"])
                T = R.poly_of(init["then"])
                a = lhs - T
                if a.is_const() or not all(len(m) <= 1 for m in a.t):
                    continue
                E_node = R.strip(init["else"])
                key = "%s:%s::%s:%s" % (prefix, f["name"].split("::")[-2], f["name"].split("::")[-1], dd["name"])
                has_mod = bool(R.find(E_node, lambda x: x.get("k") == "Binary" and x.get("op") in ("%", "/", "&", ">>")))
                E = R.poly_of(E_node)
                want = L - a
                if E == want:
                    res = (True, "%s = min(%s, %s)" % (dd["name"], T, want))
                elif not has_mod:
                    res = (False, {"edge_extent": repr(E), "expected": repr(want), "condition": R.key(c)})
                else:
                    # non-polynomial expression: look for a witness with the tile origin a multiple of T
                    wit = None
                    ek = R.key(E_node)
                    names = sorted({x for m in (list(L.t) + list(T.t) + list(a.t)) for x in m})
                    if len(names) == 3:
                        for Tv, Lv in itertools.product(range(1, 6), range(1, 13)):
                            for av in range(0, Lv, Tv):
                                if av + Tv < Lv:
                                    continue
                                env = {}
                                for nm, p in (("T", T), ("L", L), ("a", a)):
                                    env[list(p.t)[0][0] if list(p.t)[0] else nm] = {"T": Tv, "L": Lv, "a": av}[nm]
                                try:
                                    got = eval(re.sub(r"[A-Za-z_][A-Za-z0-9_.]*(\(\))?", lambda m: str(env.get(m.group(0), env.get(m.group(0).replace("()", ""), m.group(0)))), ek).replace("/", "//"))
                                except Exception:
                                    got = None
                                if got is not None and got != Lv - av:
                                    wit = {"tile": Tv, "extent": Lv, "origin": av, "edge_extent": got, "remaining": Lv - av}
                                    break
                            if wit:
                                break
                    res = (False, {"edge_extent": ek, "expected": repr(want), "witness": wit}) if wit else (None, ek)
                if key not in seen or (seen[key][0] is True and res[0] is not True):
                    seen[key] = res + (rel_path(f), d.get("line"))
    for key, (ok, det, file, line) in sorted(seen.items()):
        rep.count("obligations:" + rule.split("-")[0])
        if ok is True:
            rep.ok(rule, key, det)
        elif ok is None:
            rep.fail_analysis("%s: edge extent expression %s not recognised" % (key, det))
        else:
            rep.violation(rule, key, "%s:%s" % (file, line), dict(det, problem="the last tile of a row/column must cover exactly the remaining extent; otherwise edge pixels are not written/read or stale tile data is used"))
    rep.floor("obligations:" + rule.split("-")[0], floor)


def rel_path(f):
    p = f.get("file", "")
    i = p.find("include/boost/gil/")
    return p[i:] if i >= 0 else p


def tiff_tiles(rep):
    from . import p13
    wd = C.workdir("C12tiff")
    fns = p13.io_ast(wd)
    rep.rule("W6 tiff tiled writer: the extent copied for an edge tile is `(origin + tile < extent) ? tile : extent - origin` (exactly the remaining extent)")
    remaining_extent(rep, fns, "W6-edge-tile", "W6", lambda f: "writer::" in f["name"], 2)
    rep.rule("W6b tiff tiled writer, partial (edge) tile: the rows of the sub-view are copied to the tile buffer one after the other at a distance of the TILE WIDTH "
             "(the cursor starts at the beginning of the buffer, advances by the tile-width parameter once per row, and is reset to the beginning afterwards): libtiff takes the "
             "buffer as tile_length rows of tile_width pixels whatever part of it the image covers")
    seen = set()
    for f in fns:
        if fmt_of(f) != "tiff" or not f["name"].endswith("writer::internal_write_tiled_data") or f.get("body") is None or len(f["params"]) != 5:
            continue
        sig = re.sub(r"<.*", "", f["params"][4]["type"])[:40]
        if sig in seen:
            continue
        seen.add(sig)
        g = R.canonize(f)           # $0 view, $1 tile width, $2 tile length, $3 buffer, $4 cursor
        rep.count("obligations:W6b")
        key = "W6b:writer::internal_write_tiled_data:row stride of a partial tile"
        prob = []
        loops = [lp for lp, _ in R.find(g["body"], lambda x: x.get("k") == "For")]
        rowloops = [lp for lp in loops if R.find(lp["body"], lambda x: x.get("k") == "Call" and (x.get("callee") or {}).get("name") == "std::copy" and R.key(x["args"][-1]) == "$4")]
        if len(rowloops) != 1:
            prob.append("%d row loops copying to the cursor" % len(rowloops))
        else:
            lp = rowloops[0]
            adv = [R.key(c) for c, _ in R.find(lp["body"], lambda x: (x.get("k") == "Call" and (x.get("callee") or {}).get("name") == "std::advance") or
                                               (x.get("k") in ("CompoundAssign",) and R.key(x["l"]) == "$4") or (x.get("k") == "Call" and x.get("op") == "+=" and R.key(x["args"][0]) == "$4"))]
            if adv not in (["advance($4,$1)"], ["($4 += $1)"]):
                prob.append("the cursor moves by %s per row, expected the tile width $1" % adv)
            resets = [R.key(a) for a, _ in R.find(g["body"], lambda x: (x.get("k") == "Assign" or (x.get("k") == "Call" and x.get("op") == "=")) and R.key(x.get("l") or x["args"][0]) == "$4")]
            if not any(re.search(r"\$3\.(begin\(\)|front\(\)|data\(\))|\$3\[0\]", r) for r in resets):
                prob.append("the cursor is not reset to the beginning of the tile buffer after a partial tile: %s" % resets)
        if prob:
            rep.violation("W6b-tile-stride", key, R.fn_where(f), {"problems": prob, "example": "tiles of 32x16 (tw != th): every row but the first of an edge tile lands at the wrong offset; 1x2 gray8 image, tile 32x16: pixel (0,1) differs"})
        else:
            rep.ok("W6b-tile-stride", key, "advance(cursor, tile width) once per row, reset after the tile")
    rep.floor("obligations:W6b", 1)


def lib_dimensions(rep):
    """W7: for the formats whose codec is a library, the dimension plumbing on both sides"""
    wd = C.workdir("C12lib")
    d = C.astdump(os.path.join(C.DRIVERS, "io_driver.cpp"), os.path.join(wd, "io.json"), PATTERNS + ['^boost::gil::reader_base::'], defs=C.IO_DEFS)
    if d.get("errors"):
        raise C.AnalysisBroken("drivers/io_driver.cpp has compile errors")
    fns = d["functions"]
    rep.rule("W7 png/jpeg/tiff: the writer hands (view.width(), view.height(), channel count / depth of the pixel type) to the library in the width, "
             "height, samples/depth positions; the reader stores the library's width in _info._width and its height in _info._height; the "
             "back end's default rectangle is (_info._width, _info._height) and init_image recreates the image with (_dim.x, _dim.y)")
    got = {}

    def note(key, ok, detail, where):
        if key not in got or (got[key][0] and not ok):
            got[key] = (ok, detail, where)
    for f in fns:
        if f.get("body") is None:
            continue
        fmt = fmt_of(f)
        short = f["name"].split("::")[-1]
        cls = f["name"].split("::")[-2] if "::" in f["name"] else ""
        rn = R.param_renamer(f)
        where = "%s:%s" % (rel_path(f), f["line"])
        decl = {}
        for d, _ in R.find(f["body"], lambda x: x.get("k") == "Decl"):
            for dd in d["decls"]:
                if dd.get("name") and dd.get("init") is not None:
                    decl[dd["name"]] = rn(R.key(dd["init"]))
        res = lambda k: decl.get(k, k)
        if fmt == "png" and cls == "writer_backend" and short == "write_header":
            for c, _ in R.calls_in(f["body"], lambda n: n == "png_set_IHDR"):
                a = [rn(R.key(x)) for x in c["args"]]
                note("W7:png:writer:png_set_IHDR(width,height)", a[2:4] == ["$0.width()", "$0.height()"], a[2:6], where)
                note("W7:png:writer:png_set_IHDR(depth,colour type)", a[4:6] == ["_bit_depth", "_color_type"], a[4:6], where)
        if fmt == "jpeg" and cls == "writer" and short == "write_rows":
            asg = {R.key(a["l"]).replace("this.", ""): rn(R.key(a["r"])) for a, _ in R.find(f["body"], lambda x: x.get("k") == "Assign")}
            note("W7:jpeg:writer:image_width/height", asg.get("get().image_width") in ("JDIMENSION{$0.width()}", "$0.width()") and asg.get("get().image_height") in ("JDIMENSION{$0.height()}", "$0.height()"),
                 {k: v for k, v in asg.items() if "image_" in k}, where)
            note("W7:jpeg:writer:input_components", "get().input_components" in asg and str(asg.get("get().input_components")) in ("1", "3", "4", "value"), asg.get("get().input_components"), where)
        if fmt == "tiff" and cls == "writer_backend" and short == "write_header":
            props = {}
            for c, _ in R.find(f["body"], lambda x: x.get("k") == "Call" and (x.get("callee") or {}).get("name", "").endswith("::set_property")):
                m = re.search(r"set_property<boost::gil::(\w+)>", c["callee"].get("full", ""))
                if m and c.get("args"):
                    props[m.group(1)] = res(rn(R.key(c["args"][0])))
            flat = lambda t: (t or "").replace("tiff_image_width::type{", "").replace("tiff_image_height::type{", "").replace("}", "").replace("(", "").replace(")", "")
            note("W7:tiff:writer:image width/height", flat(props.get("tiff_image_width")).endswith("$0.width") and flat(props.get("tiff_image_height")).endswith("$0.height"),
                 {k: props.get(k) for k in ("tiff_image_width", "tiff_image_height")}, where)
        if cls == "reader_backend" and short == "read_header" and fmt == "jpeg":
            asg = {R.key(a["l"]).replace("this.", ""): R.key(a["r"]).replace("this.", "") for a, _ in R.find(f["body"], lambda x: x.get("k") == "Assign")}
            note("W7:jpeg:reader:_info._width/_height", asg.get("_info._width") == "get().image_width" and asg.get("_info._height") == "get().image_height",
                 {k: asg.get(k) for k in ("_info._width", "_info._height")}, where)
        if cls == "reader_backend" and short == "read_header" and fmt == "tiff":
            props = {}
            for c, _ in R.find(f["body"], lambda x: x.get("k") == "Call" and (x.get("callee") or {}).get("name", "").endswith("::get_property")):
                m = re.search(r"get_property<boost::gil::(\w+)>", c["callee"].get("full", ""))
                if m and c.get("args"):
                    props[m.group(1)] = R.key(c["args"][0]).replace("this.", "")
            note("W7:tiff:reader:_info._width/_height", props.get("tiff_image_width") == "_info._width" and props.get("tiff_image_height") == "_info._height",
                 {k: props.get(k) for k in ("tiff_image_width", "tiff_image_height")}, where)
        if cls == "reader_backend" and fmt == "png" and short == "read_header":
            for c, _ in R.calls_in(f["body"], lambda n: n == "png_get_IHDR"):
                a = [R.key(x).replace("this.", "") for x in c["args"]]
                note("W7:png:reader:png_get_IHDR(&width,&height)", a[2:4] == ["(&_info._width)", "(&_info._height)"], a[2:4], where)
        if cls == "reader_backend" and short == "reader_backend" and fmt in ("png", "jpeg", "tiff"):
            asg = {}
            for a, p in R.find(f["body"], lambda x: x.get("k") == "Assign"):
                asg[R.key(a["l"]).replace("this.", "")] = R.key(a["r"]).replace("this.", "")
            if "_settings._dim.x" in asg:
                note("W7:%s:reader:default rectangle" % fmt, asg.get("_settings._dim.x") == "_info._width" and asg.get("_settings._dim.y") == "_info._height",
                     {k: asg.get(k) for k in ("_settings._dim.x", "_settings._dim.y")}, where)
        if f["name"].endswith("reader_base::init_image"):
            for c, _ in R.find(f["body"], lambda x: x.get("k") == "Call" and (x.get("callee") or {}).get("name", "").endswith("::recreate")):
                a = [rn(R.key(x)) for x in c["args"][:2]]
                note("W7:reader_base::init_image:recreate(dim.x, dim.y)", a == ["$1._dim.x", "$1._dim.y"], a, where)
    want = ["W7:png:writer:png_set_IHDR(width,height)", "W7:png:writer:png_set_IHDR(depth,colour type)", "W7:jpeg:writer:image_width/height", "W7:tiff:writer:image width/height",
            "W7:jpeg:reader:_info._width/_height", "W7:tiff:reader:_info._width/_height", "W7:png:reader:png_get_IHDR(&width,&height)",
            "W7:png:reader:default rectangle", "W7:jpeg:reader:default rectangle", "W7:tiff:reader:default rectangle", "W7:reader_base::init_image:recreate(dim.x, dim.y)"]
    for k in want:
        rep.count("obligations:W7")
        if k not in got:
            rep.fail_analysis("%s: anchor not found" % k)
        elif got[k][0]:
            rep.ok("W7-lib-dimensions", k, got[k][1])
        else:
            rep.violation("W7-lib-dimensions", k, got[k][2], {"found": got[k][1]})
    for k, v in got.items():
        if k not in want:
            rep.count("obligations:W7")
            (rep.ok if v[0] else (lambda r, kk, d: rep.violation(r, kk, v[2], {"found": d})))("W7-lib-dimensions", k, v[1])
    rep.floor("obligations:W7", 11)


def lib_wire_pixels(rep):
    """W5b: the row buffer a library-backed writer hands to the codec has the colour-space order (identity channel mapping),
    whatever the memory order of the view; the readers' row buffers likewise"""
    rep.rule("W5b png/jpeg/tiff: every row buffer of pixels declared in a writer or reader row loop is pixel<channel, layout<colour space>> with the identity "
             "channel mapping (the codec sees samples in colour-space order), for views with bgr/bgra/argb memory order")
    wd = C.workdir("C12wire")
    d = C.astdump(os.path.join(C.DRIVERS, "c12_lib.cpp"), os.path.join(wd, "lib.json"), ['^boost::gil::writer::', '^boost::gil::reader::'], defs=C.IO_DEFS)
    if d.get("errors"):
        raise C.AnalysisBroken("drivers/c12_lib.cpp has compile errors")
    seen = {}
    for f in d["functions"]:
        fmt = fmt_of(f)
        if fmt not in ("png", "jpeg", "tiff") or f.get("body") is None:
            continue
        side = "writer" if "::writer::" in "::" + f["name"] else "reader"
        for dd, _ in R.find(f["body"], lambda x: x.get("k") == "Decl"):
            for v in dd["decls"]:
                ct = v.get("ctype") or ""
                # the buffer itself, or an iterator into it (the tiff reader reaches its buffer only through row_buffer_helper's iterators)
                mi = re.match(r"__gnu_cxx::__normal_iterator<(boost::gil::pixel<.*>) \*, std::vector<boost::gil::pixel<", ct)
                if mi:
                    ct = "std::vector<%s>" % mi.group(1)
                # ... or a plain pixel pointer laid over a byte buffer (the tiff tile writer)
                mp = re.fullmatch(r"(boost::gil::pixel<.*>) \*", ct)
                if mp and side == "writer":
                    ct = "std::vector<%s>" % mp.group(1)
                if not ct.startswith("std::vector<boost::gil::pixel<"):
                    continue
                px = wire_pixel(ct)
                m = re.search(r"boost::gil::layout<boost::mp11::mp_list<(.*?)>, boost::mp11::mp_list<(.*?)>>>?$", px or "")
                if not m:
                    continue
                idx = [int(x) for x in re.findall(r"std::integral_constant<int, (\d+)>", m.group(2))]
                cols = re.findall(r"boost::gil::(\w+)", m.group(1))
                key = "W5b:%s:%s::%s:%s<%s>" % (fmt, side, f["name"].split("::")[-1], v["name"], ",".join(cols))
                ok = idx == list(range(len(idx))) and len(idx) == len(cols)
                if key not in seen or (seen[key][0] and not ok):
                    seen[key] = (ok, short_type(px), "%s:%s" % (rel_path(f), dd.get("line")))
    for key, (ok, px, where) in sorted(seen.items()):
        rep.count("obligations:W5b")
        if ok:
            rep.ok("W5b-lib-wire-pixel", key, px)
        else:
            rep.violation("W5b-lib-wire-pixel", key, where, {"row_buffer_pixel": px, "problem": "the buffer keeps the memory order of the view: the codec, which is told only the colour type, receives the channels permuted"})
    rep.floor("obligations:W5b", 8)
    # W5c: the file format fixes the order of the samples (P6: r g b, bmp and targa: b g r [a]); what the writer lays its pixels into before handing the bytes to the
    # device therefore has ONE pixel type per colour space, whatever the memory order of the view that is being written
    rep.rule("W5c bmp / pnm / targa writers: the pixel type of every row buffer (a vector of pixels, or an interleaved view laid over a byte buffer) declared in a writer "
             "function is the same in the instantiation for an rgb(a) view and in the one for a bgr(a) view")
    groups = {}
    for f in d["functions"]:
        fmt = fmt_of(f)
        if fmt not in ("bmp", "pnm", "targa") or f.get("body") is None or "::writer::" not in "::" + f["name"]:
            continue
        for dd, _ in R.find(f["body"], lambda x: x.get("k") == "Decl"):
            for v in dd["decls"]:
                ct = v.get("ctype") or ""
                m = re.search(r"(boost::gil::pixel<[^;]*?boost::gil::layout<boost::mp11::mp_list<(.*?)>, boost::mp11::mp_list<(.*?)>>>)", ct)
                if not m or not (ct.startswith("std::vector<boost::gil::pixel<") or ct.startswith("boost::gil::image_view<")):
                    continue
                cols = tuple(re.findall(r"boost::gil::(\w+)", m.group(2)))
                idx = tuple(int(x) for x in re.findall(r"std::integral_constant<int, (\d+)>", m.group(3)))
                groups.setdefault((fmt, f["name"].split("::")[-1], v["name"], cols), {}).setdefault(idx, "%s:%s" % (rel_path(f), dd.get("line")))
    for (fmt, fn, var, cols), idxs in sorted(groups.items()):
        rep.count("obligations:W5c")
        key = "W5c:%s:writer::%s:%s<%s>" % (fmt, fn, var, ",".join(cols))
        if len(idxs) == 1:
            rep.ok("W5c-wire-order", key, "channel mapping %s in every instantiation" % (list(idxs)[0],))
        else:
            rep.violation("W5c-wire-order", key, sorted(idxs.values())[0], {"channel mappings of the buffer across instantiations": sorted(idxs),
                          "problem": "the buffer follows the memory order of the view: the bytes of a bgr view reach the file in b,g,r order although the format fixes the order",
                          "example": "write_view(file, bgr8 view, pnm_tag()) then read_image: red and blue exchanged"})
    rep.floor("obligations:W5c", 3)


class ScanExec(IoExec):
    def __init__(self, fns_):
        IoExec.__init__(self, fns_, {"W": (1, BIG), "H": (1, BIG)}, "scan")
        self.fstack = []
        self.nin = 0
        self.memfns = []

    def invoke(self, f, args, site=None):
        self.fstack.append(f)
        try:
            return IoExec.invoke(self, f, args, site)
        finally:
            self.fstack.pop()

    def src_bits(self):
        for f in reversed(self.fstack):
            m = re.search(r"::(read_palette_image|read_bit_row)<(.*)$", f["full"])
            if m:
                t = m.group(2)
                b = re.search(r"bit_aligned_pixel_reference<unsigned char, boost::mp11::mp_list<std::integral_constant<unsigned int, (\d+)>>", t)
                if b:
                    return int(b.group(1))
                if "pixel<unsigned char" in t:
                    return 8
        return None

    def stmt(self, s):
        s1 = R.strip(s) if s is not None else None
        if s1 is not None and s1.get("k") == "Decl":
            for d in s1.get("decls", []):
                init = R.strip(d.get("init")) if d.get("init") is not None else None
                if init is not None and init.get("k") == "Call" and d.get("id"):
                    cal = init.get("callee") or {}
                    m = re.search(r"packed_(dynamic_)?channel_reference<[^,]+, (\d+)(, (\d+))?, (true|false)>", cal.get("cls", "")) if "::operator " in cal.get("name", "") else None
                    if m:
                        nb = int(m.group(4) if (m.group(4) and not m.group(1)) else m.group(2))
                        self.env["L:%s" % d["id"]] = self.fresh(0, 2 ** nb - 1, "px%d_" % nb)
                        return None
        return IoExec.stmt(self, s)

    def on_call(self, n):
        cal = n.get("callee") or {}
        name = cal.get("name", "")
        m = re.search(r"_device::read_uint(8|16|32)$", name)
        if m:
            return self.fresh(0, 2 ** int(m.group(1)) - 1, "in")
        if name == "std::mem_fn":
            for x, _ in R.find(n.get("args", []), lambda x: x.get("k") == "DeclRef" and x.get("dk") == "CXXMethod"):
                self.memfns.append(x.get("id"))
            return None
        if name.endswith("std::vector::resize") and n.get("obj") is not None:
            vk = self.var_key(n["obj"])
            self.vsize[vk] = self.ev(n["args"][0])
            self.ev_event("resize", vec=vk, size=self.vsize[vk], size_bounds=self.bounds(self.vsize[vk]), line=n.get("line"))
            return None
        if n.get("op") == "[]" and name.endswith("std::vector::operator[]") and n.get("args"):
            vk = self.var_key(n["args"][0])
            if vk is not None and vk.endswith("_palette"):
                i = self.ev(n["args"][1])
                self.ev_event("index", vec=vk, idx=R.key(n["args"][1]), idx_bounds=self.bounds(i), size_bounds=self.bounds(self.vsize.get(vk)), line=n.get("line"),
                              loopvar=bool(i is not None and any(a.startswith("y") and a[1:].isdigit() for mon in i.t for a in mon)))
            return None
        return IoExec.on_call(self, n)



def lib_row_order(rep):
    """W8: the library-backed writers hand view row y to the codec as row y"""
    rep.rule("W8 png/jpeg/tiff(strip) writers: in the row loop the row copied into the buffer is view row y for y = 0..H-1 ascending, each followed by one codec row write "
             "(tiff: written as row y)")
    wd = C.workdir("C12rows")
    d = C.astdump(os.path.join(C.DRIVERS, "c12_lib.cpp"), os.path.join(wd, "lib.json"), ['^boost::gil::writer::', '^boost::gil::writer_backend::'], defs=C.IO_DEFS)
    if d.get("errors"):
        raise C.AnalysisBroken("drivers/c12_lib.cpp has compile errors")
    fns = d["functions"]
    seen = {}
    for f in fns:
        fmt = fmt_of(f)
        short = f["name"].split("::")[-1]
        if fmt not in ("png", "jpeg", "tiff") or short not in ("write_view", "write_rows", "write_data", "write_bit_aligned_view_to_dev", "write_view_to_dev") or f.get("body") is None:
            continue
        ex = ScanExec(fns)
        try:
            ex.invoke(f, [])
        except Stop:
            continue
        ws = [e for e in ex.events if e["kind"] == "libwrite" and e["loop"]]
        cps = [e for e in ex.events if e["kind"] == "rowcopy" and e["loop"]]
        if not ws:
            continue
        key = "W8:%s:%s" % (fmt, short)
        prob = []
        for w in ws:
            cp = [c for c in cps if c["loop"] == w["loop"]]
            lp = w["loop"][-1]
            iv = Poly.atom(lp["iv"])
            if not cp:
                prob.append("no row copy in the loop of the codec write at line %s" % w["line"])
                continue
            if cp[0]["y"] != iv or lp["init"] != Poly.const(0) or lp["step"] != 1 or lp.get("trip") != Poly.atom("H"):
                prob.append("row loop: copies view row %r for y from %r step %s, %r iterations (expected rows 0..H-1 ascending)" % (cp[0]["y"], lp["init"], lp["step"], lp.get("trip")))
            if w["row"] is not None and w["row"] != iv:
                prob.append("the row is written as codec row %r" % (w["row"],))
        if key not in seen or (not seen[key][0] and prob):
            seen[key] = (prob, "%s:%s" % (rel_path(f), f["line"]))
    for key, (prob, where) in sorted(seen.items()):
        rep.count("obligations:W8")
        if prob:
            rep.violation("W8-lib-row-order", key, where, {"problems": prob})
        else:
            rep.ok("W8-lib-row-order", key, "view row y -> codec row y, y = 0..H-1")
    rep.floor("obligations:W8", 3)



def lib_sample_values(rep):
    """W9: what a library-backed writer hands to the codec are the samples of the view"""
    rep.rule("W9 png/jpeg/tiff writers: the rows handed to the codec are read from the user's view itself: no value-changing view adaptor (premultiply_view, "
             "color_converted_view with a real conversion, ...) stands between the view and the codec unless the reader applies the inverse; a premultiplied alpha cannot be undone "
             "(alpha 0 loses the colour), so write_view followed by read_image does not return the view")
    wd = C.workdir("C12wire")
    d = C.astdump(os.path.join(C.DRIVERS, "c12_lib.cpp"), os.path.join(wd, "lib.json"), ['^boost::gil::writer::', '^boost::gil::reader::'], defs=C.IO_DEFS)
    if d.get("errors"):
        raise C.AnalysisBroken("drivers/c12_lib.cpp has compile errors")
    ADAPT = ("premultiply_view", "unpremultiply_view")
    seen = {}
    inverse = set()
    nwr = 0
    for f in d["functions"]:
        fmt = fmt_of(f)
        if fmt not in ("png", "jpeg", "tiff") or f.get("body") is None:
            continue
        side = "writer" if "::writer::" in "::" + f["name"] else "reader"
        nwr += side == "writer"
        for c, _ in R.calls_in(f["body"], lambda n: n.split("::")[-1] in ADAPT or "unpremultipl" in n):
            nm = c["callee"]["name"].split("::")[-1]
            if side == "reader":
                inverse.add(fmt)
            elif nm == "premultiply_view":
                seen.setdefault("W9:%s:writer::%s:premultiply_view" % (fmt, f["name"].split("::")[-1]), "%s:%s" % (rel_path(f), c.get("line")))
    rep.analysed["library-backed writer members"] = nwr
    rep.count("obligations:W9")
    if nwr < 10:
        rep.fail_analysis("W9: only %d writer members instantiated" % nwr)
    elif not seen:
        rep.ok("W9-lib-sample-values", "W9: %d writer members, rows come from the view unchanged" % nwr, nwr)
    for key, where in sorted(seen.items()):
        rep.count("obligations:W9")
        fmt = key.split(":")[1]
        if fmt in inverse:
            rep.ok("W9-lib-sample-values", key, "the reader un-premultiplies")
        else:
            rep.violation("W9-lib-sample-values", key, where, {"problem": "the colour channels are multiplied by alpha before they are written and no reader divides again: rgba8 (200,100,50,128) reads back (100,50,25,128)"})
