// C11 / R8: targa reader::read_rle_data computed  width * height * bytes_per_pixel  in int.
// A 1.3 KB run-length encoded 32-bit file that declares 32768 x 32769 pixels makes the product 2^32 + 131072, which wrapped to
// 131072: the decode buffer got 128 KiB, and the final copy_pixels read 4 GiB from it (SIGSEGV / heap over-read).
// After the fix the size is computed in std::size_t: the reader asks for the 4 GiB it needs and runs into the end of the file
// (io_error / std::bad_alloc), like for every other truncated file.
// Build: g++ -std=c++14 -O1 -I /repo/include targa_rle_size_overflow.cpp && ./a.out
#include <boost/gil.hpp>
#include <boost/gil/extension/io/targa.hpp>
#include <cstdio>
#include <sstream>
#include <string>
using namespace boost::gil;
int main()
{
    std::string f;
    auto u8 = [&](int v) { f.push_back(char(v)); };
    auto u16 = [&](int v) { u8(v & 255); u8(v >> 8); };
    u8(0); u8(0); u8(10);                 // no id, no colour map, RLE true colour
    u16(0); u16(0); u8(0);                // colour map spec
    u16(0); u16(0); u16(32768); u16(32769); u8(32); u8(8);   // origin, 32768 x 32769, 32 bpp, 8 alpha bits
    for (int i = 0; i < 131072 / 4 / 128; ++i) { u8(0xFF); u8(1); u8(2); u8(3); u8(4); }   // 256 runs of 128 pixels = 131072 bytes
    std::istringstream in(f, std::ios::binary);
    rgba8_image_t img;
    try
    {
        read_image(in, img, targa_tag());
        std::printf("read %ldx%ld\n", (long)img.width(), (long)img.height());
    }
    catch (std::exception const& e)
    {
        std::printf("rejected: %s\n", e.what());
        return 0;
    }
    return 1;
}
