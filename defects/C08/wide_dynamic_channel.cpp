// C08 replay: packed_dynamic_channel_reference builds its mask and shifts the value in the channel's 32-bit integer type:
// a channel of 26..32 bits at a non-zero bit offset of a 64-bit field loses its top bits
// g++ -std=c++14 -I/repo/include wide_dynamic_channel.cpp && ./a.out
#include <boost/gil.hpp>
#include <cstdint>
#include <cstdio>
using namespace boost::gil;
int main()
{
    std::uint64_t field = 0;
    packed_dynamic_channel_reference<std::uint64_t, 30, true> ch(&field, 3);
    ch = std::uint32_t(1) << 29;
    std::printf("30-bit channel at bit 3: wrote 2^29, read %u, field = 0x%llx (expected 0x%llx)\n", unsigned(ch.get()), (unsigned long long)field, (unsigned long long)(std::uint64_t(1) << 32));
    return ch.get() == (std::uint32_t(1) << 29) ? 0 : 1;
}
