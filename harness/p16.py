"""C16 threshold / morphology / median: decision tables, loop-nest application, guarded division, guarded access,
documented compositions -- structural rules over the instantiated AST."""
import os, json, re
from . import common as C
from .ast import rules as R

LEVEL = "other"
EXPLANATION = ("Static analysis over the instantiated AST (astdump): (T1) the decision table of every threshold lambda, located "
               "by the mode/direction conditions that dominate it, equals the documented table (spec/c16_threshold.json) on the "
               "three regions px<t, px==t, px>t; (T2) threshold_impl applies the functor through static_transform(src_it[x], "
               "dst_it[x], op) inside the full y/x loop nest of the source view; (T3) in otsu_impl every division has a divisor "
               "that is a non-zero literal or is dominated by a non-zero test, and the 8-bit histogram index is the 8-bit pixel; "
               "(T4) morph_impl reads the source only under the four-sided bounds test of the same view, takes max for dilation "
               "and min for erosion, writes dst(view_col,view_row) inside the loop nest; (T5) dilate/erode/opening/closing/"
               "gradient/top_hat/black_hat/median_filter delegate as documented. Not decided: extremum/median values, "
               "idempotence, monotonicity.")


DRIVER = '''#include "vf_common.hpp"
#include <boost/gil/image_processing/threshold.hpp>
#include <boost/gil/image_processing/morphology.hpp>
#include <boost/gil/image_processing/filter.hpp>
using namespace vf;
template <class V> void thr(V const& s, V const& d){
  threshold_binary(s, d, 10, 200); threshold_binary(s, d, 10, threshold_direction::inverse);
  threshold_truncate(s, d, 10, threshold_truncate_mode::zero, threshold_direction::inverse);
  threshold_optimal(s, d, threshold_optimal_value::otsu, threshold_direction::regular);
}
void inst(gray8_view_t const& a, gray8_view_t const& b, gray16_view_t const& c, gray16_view_t const& d, rgb8_view_t const& e, rgb8_view_t const& f,
          gray8s_view_t const& g, gray8s_view_t const& h){
  thr(a, b); thr(c, d); thr(e, f); thr(g, h);
  detail::kernel_2d<float> k(3, 1, 1);
  dilate(a, b, k, 1); erode(a, b, k, 1); opening(a, b, k); closing(a, b, k); morphological_gradient(a, b, k); top_hat(a, b, k); black_hat(a, b, k);
  dilate(e, f, k, 2);
  median_filter(a, b, 3); median_filter(e, f, 5);
}
void inst2(rgb8_view_t const& e, bgr8_view_t const& x){ threshold_optimal(e, x); median_filter(e, x, 3); }
// source and destination channels of different signedness at 32 bits (T1b): the threshold has the destination's type
void inst3(gray32s_view_t const& s, gray32_view_t const& u){
  threshold_binary(s, u, 0u, 5u); threshold_binary(u, s, -1, 5); threshold_truncate(s, u, 5u); threshold_truncate(u, s, -1, threshold_truncate_mode::zero);
}
'''


def lambda_table(lam):
    """returns dict region -> value key for regions lt/eq/gt of (px ? threshold), or None if the shape is not recognised"""
    params = [p["name"] for p in lam.get("params", [])]
    if len(params) != 1:
        return None
    px = params[0]
    body = R.strip(lam["body"])
    cond = then = els = None
    stmts = body.get("c", []) if body.get("k") == "Compound" else [body]
    stmts = [R.strip(s) for s in stmts]
    if len(stmts) == 1 and stmts[0].get("k") == "Return":
        e = R.strip(stmts[0]["e"])
        if e.get("k") == "Cond":
            cond, then, els = e["cond"], e["then"], e["else"]
    elif len(stmts) == 1 and stmts[0].get("k") == "If" and stmts[0].get("else") is not None:
        i = stmts[0]
        t, e = ret_of(i["then"]), ret_of(i["else"])
        if t is not None and e is not None:
            cond, then, els = i["cond"], t, e
    elif len(stmts) == 2 and stmts[0].get("k") == "If" and stmts[0].get("else") is None and stmts[1].get("k") == "Return":
        t = ret_of(stmts[0]["then"])
        if t is not None:
            cond, then, els = stmts[0]["cond"], t, stmts[1]["e"]
    if cond is None:
        return None
    ats = R.atoms(cond, True)
    if len(ats) != 1 or ats[0][0] not in R.NEG:
        return None
    op, l, r = ats[0]
    if r == px and l != px:
        op, l, r = R.FLIP[op], r, l
    if l != px:
        return None
    tv, ev = R.key(then), R.key(els)
    truth = {"<": ("lt",), "<=": ("lt", "eq"), ">": ("gt",), ">=": ("gt", "eq"), "==": ("eq",), "!=": ("lt", "gt")}[op]
    return {"versus": r, "lt": tv if "lt" in truth else ev, "eq": tv if "eq" in truth else ev, "gt": tv if "gt" in truth else ev, "px": px}


def ret_of(n):
    n = R.strip(n)
    if n is None:
        return None
    if n.get("k") == "Return":
        return n["e"]
    if n.get("k") == "Compound" and len(n.get("c", [])) == 1:
        return ret_of(n["c"][0])
    return None


def context_of(path):
    """(mode, direction) enumerators implied by the guards that dominate the lambda"""
    gs = R.guards(path)
    ctx = {}
    for op, l, r in gs:
        for var in ("direction", "mode"):
            if l == var or r == var:
                other = r if l == var else l
                other = other.split("::")[-1]
                if op == "==":
                    ctx[var] = other
                elif op == "!=":
                    ctx.setdefault(var + "_not", []).append(other)
    return ctx


T0_WITNESS = r"""
#include "vf_common.hpp"
#include <boost/gil/image_processing/threshold.hpp>
#include <boost/gil/image_processing/morphology.hpp>
#include <boost/gil/image_processing/filter.hpp>
using namespace vf;
// "all channel types": every threshold entry point over 8/16/32-bit unsigned and signed channels and the library's float32_t, same type and mixed
template <class S, class D> void thr(S const& s, D const& d, typename channel_type<D>::type t){
  threshold_binary(s, d, t, t); threshold_binary(s, d, t); threshold_binary(s, d, t, threshold_direction::inverse);
  threshold_truncate(s, d, t); threshold_truncate(s, d, t, threshold_truncate_mode::zero, threshold_direction::inverse);
}
void inst(gray8_view_t const& a, gray8s_view_t const& b, gray16_view_t const& c, gray16s_view_t const& d, gray32_view_t const& e, gray32s_view_t const& f,
          gray32f_view_t const& g, rgb32f_view_t const& h, rgb8_view_t const& i){
  thr(a, a, 1); thr(b, b, 1); thr(c, c, 1); thr(d, d, 1); thr(e, e, 1); thr(f, f, 1); thr(g, g, 0.5f); thr(h, h, 0.5f);
  thr(a, c, 1); thr(c, a, 1); thr(b, a, 1); thr(a, g, 0.5f); thr(g, a, 1); thr(i, h, 0.5f);
  detail::kernel_2d<float> k(3, 1, 1); dilate(g, g, k, 1); erode(e, e, k, 1); median_filter(g, g, 3); median_filter(f, f, 3);
}
"""


def entry_points_compile(rep, wd):
    rep.rule("T0 threshold_binary (three forms) and threshold_truncate (both modes) instantiate for 8/16/32-bit unsigned and signed channels and float32_t, "
             "same-type and mixed source/destination; dilate / erode / median_filter for 32-bit and float32_t channels")
    src = os.path.join(wd, "t0_witness.cpp")
    open(src, "w").write(T0_WITNESS)
    rc, err, cmd = C.syntax_only(src)
    rep.count("obligations:T0")
    if rc == 0:
        rep.ok("T0-entry-points", "T0:threshold / morphology / median over all channel types", "compiles")
        return
    seen = set()
    for e in C.parse_errors(err)[:30]:
        if "include/boost/gil/" not in e["file"]:
            continue
        key = "T0:%s:%s" % (C.repo_rel(e["file"]), re.sub(r"'[^']{40,}'", "'...'", e["msg"])[:90])
        if key in seen:
            continue
        seen.add(key)
        rep.violation("T0-entry-points", key, "%s:%s" % (C.repo_rel(e["file"]), e["line"]), {"error": e["msg"][:300], "example": "threshold_binary(const_view(gray32f image), view(gray32f image), 0.5f);"})
    if not seen:
        raise C.AnalysisBroken("T0 witness does not compile: %s" % err[-600:])


def run(rep):
    C.need_tools(C.ASTDUMP)
    wd = C.workdir("C16")
    entry_points_compile(rep, wd)
    src = os.path.join(wd, "c16_driver.cpp")
    open(src, "w").write(DRIVER)
    d = C.astdump(src, os.path.join(wd, "c16.json"),
                  ["^boost::gil::threshold_", "^boost::gil::detail::threshold_impl", "^boost::gil::detail::otsu_impl", "^boost::gil::detail::morph",
                   "^boost::gil::(dilate|erode|opening|closing|morphological_gradient|top_hat|black_hat|median_filter)$", "^boost::gil::detail::filter_median_impl",
                   "^boost::gil::detail::difference", "^boost::gil::detail::physical_channel_index$", "^boost::gil::detail::__nth_channel_view_basic::make$"])
    fns = d["functions"]
    spec = json.load(open(os.path.join(C.SPEC, "c16_threshold.json")))
    rep.units.append("c16_driver.cpp: %d instantiated functions" % len(fns))
    rep.trusted += ["clang front end (instantiated AST)", "spec/c16_threshold.json (documented tables)", "structured-dominance helper harness/ast/rules.py"]
    W = "include/boost/gil/image_processing/"
    # ---------------------------------------------------------------- T1 decision tables
    rep.rule("T1 decision table of every threshold lambda == documented table for its (mode, direction)")
    ENUM_OTHER = {"regular": "inverse", "inverse": "regular", "threshold": "zero", "zero": "threshold"}
    for f in fns:
        short = f["name"].split("::")[-1]
        if short not in ("threshold_binary", "threshold_truncate"):
            continue
        lams = R.find(f["body"], lambda x: x.get("k") == "Lambda")
        if short == "threshold_binary" and not lams:
            continue     # forwarding overload
        for lam, path in lams:
            ctx = context_of(path)
            direction = ctx.get("direction") or (ENUM_OTHER.get(ctx["direction_not"][0]) if ctx.get("direction_not") else None)
            mode = ctx.get("mode") or (ENUM_OTHER.get(ctx["mode_not"][0]) if ctx.get("mode_not") else None)
            rep.count("lambdas")
            key = "T1:%s:%s:%s" % (short, mode or "-", direction)
            if direction is None or (short == "threshold_truncate" and mode is None):
                rep.fail_analysis("%s: cannot tell which mode/direction the lambda at line %s serves" % (short, lam.get("line")))
                continue
            tab = lambda_table(lam)
            if tab is None:
                rep.fail_analysis("%s (%s,%s): lambda body shape not recognised at line %s" % (short, mode, direction, lam.get("line")))
                continue
            want = spec[short]["%s/%s" % (mode, direction) if short == "threshold_truncate" else direction]
            got = {k: canon_val(tab[k], tab["px"]) for k in ("lt", "eq", "gt")}
            if tab["versus"] != "threshold_value":
                rep.violation("T1-table", key, W + "threshold.hpp:%s" % lam.get("line"), {"problem": "pixel compared with %s, not with the threshold" % tab["versus"]})
            elif got == want:
                rep.ok("T1-table", key + ":" + f["full"][-40:], got)
            else:
                rep.violation("T1-table", key, W + "threshold.hpp:%s" % lam.get("line"), {"got": got, "documented": want})
    rep.floor("lambdas", 6)
    # ---------------------------------------------------------------- T2 threshold_impl
    rep.rule("T2 threshold_impl: static_transform(src_it[x], dst_it[x], op) under 0<=x<src.width(), 0<=y<src.height(), iterators = row_begin(y)")
    for f in fns:
        if not f["name"].endswith("detail::threshold_impl"):
            continue
        rep.count("threshold_impl")
        g = R.canonize(f)           # $0 source view, $1 destination view, $2 functor; loop variables #k; row iterators inlined
        calls = R.calls_in(g["body"], lambda n: n == "boost::gil::static_transform")
        key = "T2:threshold_impl"
        if len(calls) != 1:
            rep.violation("T2-apply", key, R.fn_where(f), {"problem": "%d static_transform calls" % len(calls)})
            continue
        call, path = calls[0]
        a = [R.key(x) for x in call["args"]]
        gs = R.guards(path)
        loops = [x for x, fld, _ in path if x.get("k") == "For" and fld == "body"]
        ok = len(loops) == 2 and R.counts_up(loops[0], "$0.height()") and R.counts_up(loops[1], "$0.width()")
        yv, xv = (R.for_shape(loops[0])[0], R.for_shape(loops[1])[0]) if len(loops) == 2 else (None, None)
        want = ["$0.row_begin(%s)[%s]" % (yv, xv), "$1.row_begin(%s)[%s]" % (yv, xv), "$2"]
        # iterators that are advanced by hand would stay named (%k) and not match
        if ok and a == want:
            rep.ok("T2-apply", key + ":" + f["full"][-30:], {"args": a})
        else:
            rep.violation("T2-apply", key, R.fn_where(f, call), {"args": a, "expected": want, "loops": [R.for_shape(l) for l in loops]})
    rep.floor("threshold_impl", 2)
    # ---------------------------------------------------------------- T3 otsu divisions
    rep.rule("T3 otsu_impl: every division/modulo has a non-zero literal divisor or is dominated by a non-zero test of the divisor")
    seen = set()
    for f in fns:
        if not f["name"].endswith("detail::otsu_impl"):
            continue
        rep.count("otsu_impl")
        divs = R.find(f["body"], lambda x: x.get("k") in ("Binary", "CompoundAssign") and x.get("op") in ("/", "%", "/=", "%="))
        for dv, path in divs:
            dk = R.key(dv["r"])
            rep.count("obligations:T3")
            r = R.strip(dv["r"])
            if R.is_lit(dk) and float(dk) != 0 or (r.get("const") not in (None, "0")):
                rep.ok("T3-division", "otsu_impl: / %s" % dk, "literal")
                continue
            gs = R.guards(path)
            if R.implies_nonzero(gs, dk):
                rep.ok("T3-division", "otsu_impl: / %s" % dk, "guarded")
            else:
                key = "T3:otsu_impl:division by %s" % dk
                if key in seen:
                    continue
                seen.add(key)
                rep.violation("T3-division", key, R.fn_where(f, dv), {"expression": R.key(dv)[:200], "divisor": dk,
                                                                       "problem": "no dominating test that the divisor is non-zero (a constant image makes max == min)"})
    rep.floor("otsu_impl", 2)
    # ---------------------------------------------------------------- T11 the range scan of otsu_impl
    rep.rule("T11 otsu_impl, range scan of the wide / signed branch: the update of the minimum (v < lo -> lo = v) and of the maximum (v > hi -> hi = v) are independent tests; "
             "the maximum's update is not nested under the failure of the minimum's test (lo starts at the type maximum, so the first pixel always lowers it and would "
             "never be offered to hi: a maximum that occurs only at pixel (0,0) is lost and the histogram index (v - lo) * 255 / (hi - lo) leaves [0, 255])")
    seen11 = False
    for f in fns:
        if not f["name"].endswith("detail::otsu_impl") or f.get("body") is None or seen11:
            continue
        g = R.canonize(f)
        ups = []
        for k, x, pth in R.effects(g["body"]):
            if x.get("k") != "Assign" or not re.fullmatch(r"%\d+", R.key(x["l"])):
                continue
            lhs, rhs = R.key(x["l"]), R.key(x["r"])
            gs = R.guards(pth)
            mine = [(op, l, r) for op, l, r in gs if {l, r} == {lhs, rhs}]
            if len(mine) == 1 and mine[0][0] in ("<", ">"):
                lower = (mine[0][0] == "<" and mine[0][1] == rhs) or (mine[0][0] == ">" and mine[0][1] == lhs)
                other = [(op, l, r) for op, l, r in gs if rhs in (l, r) and lhs not in (l, r) and re.fullmatch(r"%\d+", l if r == rhs else r)]
                ups.append(("min" if lower else "max", lhs, rhs, other))
        if len(ups) < 2:
            continue
        seen11 = True
        rep.count("obligations:T11")
        dep = [{"update of": u[0], "variable": u[1], "also conditioned on": [" ".join(o) for o in u[3]]} for u in ups if u[3]]
        if dep:
            rep.violation("T11-range-scan", "T11:otsu_impl:range scan", R.fn_where(f), {"dependent updates": dep,
                          "example": "gray16 image {60000, 1, 0, 1, 0, 1}: 60000 lowers the minimum and is never compared with the maximum; the histogram index of the first pixel is far outside the 256 bins"})
        else:
            rep.ok("T11-range-scan", "T11:otsu_impl:range scan", [(u[0], u[1]) for u in ups])
    rep.floor("obligations:T11", 1)
    # ---------------------------------------------------------------- T4 morph_impl
    rep.rule("T4 morph_impl: source read src_view(c,r) only under 0<=r<src.height() && 0<=c<src.width(); dilation->max, erosion->min; dst written at the loop position")
    for f in fns:
        if not f["name"].endswith("detail::morph_impl"):
            continue
        rep.count("morph_impl")
        sv, dvw = f["params"][0]["name"], f["params"][1]["name"]
        reads = [(c, p) for c, p in R.find(f["body"], lambda x: x.get("k") == "Call" and x.get("op") == "()" and len(x.get("args", [])) == 3 and R.key(x["args"][0]) == sv)]
        key = "T4:morph_impl"
        bad = []
        for c, p in reads:
            xk, yk = R.key(c["args"][1]), R.key(c["args"][2])
            gs = R.guards(p)
            need = [("<", xk, sv + ".width()"), (">=", xk, "0"), ("<", yk, sv + ".height()"), (">=", yk, "0")]
            miss = [n for n in need if not R.has_atom(gs, *n)]
            if miss:
                bad.append({"access": R.key(c), "line": c.get("line"), "missing_guards": miss})
        if bad:
            rep.violation("T4-guarded-read", key + ":unguarded source read", R.fn_where(f), {"reads": bad})
        else:
            rep.ok("T4-guarded-read", key + ":" + f["full"][-30:], {"reads": len(reads)})
        # extremum selection
        for ident, want in (("dilation", "max"), ("erosion", "min")):
            cs = []
            for c, p in R.calls_in(f["body"], lambda n: n in ("std::max", "std::min")):
                gs = R.guards(p)
                if any(op == "==" and ident in (l + r) for op, l, r in gs):
                    cs.append(c["callee"]["name"].split("::")[-1])
            rep.count("obligations:T4-extremum")
            if cs == [want]:
                rep.ok("T4-extremum", "morph_impl:%s uses %s" % (ident, want), cs)
            else:
                rep.violation("T4-extremum", "T4:morph_impl:%s" % ident, R.fn_where(f), {"calls_under_%s" % ident: cs, "expected": [want]})
        # every structuring element entry takes part: the two kernel loops run 0..size-1 with unit steps and the only way to skip an
        # entry is `continue` under the entry == 0 test (a break/return would drop the entries after it)
        kn = f["params"][2]["name"]
        kloops = [x for x, _ in R.find(f["body"], lambda x: x.get("k") == "For" and x.get("cond") is not None and (kn + ".size()") in R.key(x["cond"]))]
        rep.count("obligations:T4-coverage")
        probs = []
        if len(kloops) != 2:
            probs.append("expected two loops over the structuring element, found %d" % len(kloops))
        for lp in kloops:
            init = R.strip(lp.get("init"))
            iv = init["decls"][0]["name"] if init is not None and init.get("k") == "Decl" and init.get("decls") else None
            ck = R.key(lp["cond"])
            if iv is None or R.key(init["decls"][0].get("init")) != "0" or ck not in ("(%s < %s.size())" % (iv, kn),) or R.key(lp.get("inc")) not in ("(++%s)" % iv, "(%s++)" % iv):
                probs.append("kernel loop is not `for (i = 0; i < kernel.size(); ++i)`: init %s, cond %s, inc %s" % (R.key(init["decls"][0].get("init")) if iv else "?", ck, R.key(lp.get("inc"))))
        if kloops:
            inner = kloops[-1]
            for x, p in R.find(inner.get("body"), lambda x: x.get("k") in ("Break", "Return", "Throw")):
                probs.append("`%s` inside the kernel loops at line %s" % (x["k"].lower(), x.get("line")))
            for x, p in R.find(inner.get("body"), lambda x: x.get("k") == "Continue"):
                gs = R.guards(p)
                own = [g for g in gs if ".at(" in (g[1] + g[2])]
                if not any(op == "==" and "0" in (l, r) for op, l, r in own):
                    probs.append("`continue` at line %s is not guarded by `%s.at(..) == 0`" % (x.get("line"), kn))
        if probs:
            rep.violation("T4-coverage", "T4:morph_impl:structuring element coverage", R.fn_where(f), {"problems": probs, "problem": "entries of the structuring element after the offending statement never contribute to the maximum/minimum"})
        else:
            rep.ok("T4-coverage", "morph_impl visits every structuring element entry; zero entries are skipped with continue", len(kloops))
        # the entry read as kernel.at(ix, iy) (x first, see kernel_2d::at) is the one whose indices give the pixel offset: ix in the column offset, iy in the row offset
        # (canonical form: $0 source, $1 destination, $2 structuring element; #0 view row, #1 view column, #2/#3 the element loops)
        rep.count("obligations:T4-index")
        g = R.canonize(f)
        gl = [l for l in R.loops_of(g["body"]) if l.get("k") == "For"]
        rowv = colv = None
        if len(gl) >= 2 and R.counts_up(gl[0], "$0.height()") and R.counts_up(gl[1], "$0.width()"):
            rowv, colv = R.for_shape(gl[0])[0], R.for_shape(gl[1])[0]
        eff = R.effects(g["body"])
        asg = {}
        for k, x, _ in eff:
            m = re.fullmatch(r"\((%\d+) = (.*)\)", k)
            if m:
                asg.setdefault(m.group(1), []).append(m.group(2))
        reads = [c for c, _ in R.find(g["body"], lambda x: x.get("k") == "Call" and x.get("op") == "()" and len(x.get("args", [])) == 3 and R.key(x["args"][0]) == "$0")]
        nb = [(R.key(c["args"][1]), R.key(c["args"][2])) for c in reads if re.fullmatch(r"%\d+", R.key(c["args"][1])) and re.fullmatch(r"%\d+", R.key(c["args"][2]))]
        ats = [c for c, _ in R.find(g["body"], lambda x: x.get("k") == "Call" and x.get("member_call") and x["callee"]["name"].endswith("::at") and R.key(x.get("obj")) == "$2")]
        if rowv is None or len(set(nb)) != 1 or len(ats) != 1 or any(len(asg.get(v, [])) != 1 for v in nb[0]):
            rep.incon("T4-index", "T4:morph_impl:structuring element index", {"unrecognised": "view loops %s, neighbour reads %s, at-calls %d" % ((rowv, colv), sorted(set(nb)), len(ats))})
        else:
            cx, cy = nb[0]                      # the neighbour is read as src(cx, cy): cx is its column, cy its row
            ix, iy = R.key(ats[0]["args"][0]), R.key(ats[0]["args"][1])
            ex, ey = asg[cx][0], asg[cy][0]
            col_ok = re.search(r"(?<![\w%%#])%s(?!\d)" % re.escape(colv), ex) and re.search(r"(?<![\w%%#])%s(?!\d)" % re.escape(ix), ex) and "center_x" in ex
            row_ok = re.search(r"(?<![\w%%#])%s(?!\d)" % re.escape(rowv), ey) and re.search(r"(?<![\w%%#])%s(?!\d)" % re.escape(iy), ey) and "center_y" in ey
            if not (col_ok and row_ok):
                rep.violation("T4-index", "T4:morph_impl:structuring element index", R.fn_where(f),
                              {"element_read": R.key(ats[0]), "neighbour column": "%s = %s" % (cx, ex), "neighbour row": "%s = %s" % (cy, ey),
                               "problem": "kernel_2d::at(x, y): the x index must be the one used for the column offset (with center_x, from the view column), the y index for the row offset; otherwise the structuring element is applied transposed"})
            else:
                rep.ok("T4-index", "morph_impl: at(ix,iy) with column offset from ix and row offset from iy", {"at": R.key(ats[0]), "column": ex, "row": ey})
        # destination write
        wr = [(k, x, pth) for k, x, pth in eff if k.startswith("($1(")]
        rep.count("obligations:T4-write")
        okw = rowv is not None and len(wr) == 1 and re.fullmatch(r"\(\$1\(%s,%s\) = %%\d+\)" % (re.escape(colv), re.escape(rowv)), wr[0][0]) is not None and \
            any(a is gl[1] for a, _, _ in wr[0][2])
        if okw:
            # the stored value is the running extremum: the local that the max/min assignments update
            acc = re.fullmatch(r".* = (%\d+)\)", wr[0][0]).group(1)
            upd = [k for k, _, _ in eff if re.fullmatch(r"\(%s = (max|min)\(.*,%s\)\)" % (re.escape(acc), re.escape(acc)), k)]
            okw = len(upd) == 2
        if okw:
            rep.ok("T4-write", "morph_impl writes dst(view_col,view_row) once per position", len(wr))
        else:
            rep.violation("T4-write", "T4:morph_impl:destination write", R.fn_where(f), {"writes": [k for k, _, _ in wr]})
    rep.floor("morph_impl", 1)
    # ---------------------------------------------------------------- T5 compositions
    rep.rule("T5 documented compositions: opening = erode;dilate, closing = dilate;erode, gradient = dilate - erode, top_hat = src - opening, "
             "black_hat = closing - src, dilate/erode -> morph(dilation/erosion) x iterations, median_filter extends by kernel_size/2 with extend_constant")
    COMP = spec["compositions"]
    byname = {}
    for f in fns:
        byname.setdefault(f["name"].split("::")[-1], f)
    for nm, want in COMP.items():
        f = byname.get(nm)
        rep.count("obligations:T5")
        if f is None:
            rep.fail_analysis("T5: %s not instantiated" % nm)
            continue
        seq = []
        for c, p in R.calls_in(f["body"], lambda n: n.split("::")[-1] in ("erode", "dilate", "opening", "closing", "difference", "morph", "copy_pixels", "extend_boundary", "subimage_view", "filter_median_impl")):
            short = c["callee"]["name"].split("::")[-1]
            args = [rename(R.key(a), f) for a in c["args"]]
            seq.append(short + "(" + ",".join(a.split("::")[-1] for a in args) + ")")
        # (which channel index is handed to nth_channel_view is T7's subject)
        if [re.sub(r"physical_channel_index\((\w+)\)", r"\1", q) for q in seq] == want:
            rep.ok("T5-composition", nm, seq)
        else:
            rep.violation("T5-composition", "T5:" + nm, R.fn_where(f), {"calls": seq, "documented": want})
    # ---------------------------------------------------------------- T7 channel pairing
    rep.rule("T7 threshold_optimal / median_filter (instantiated rgb8 -> bgr8): the per-channel calls pair the source and destination channels of the same colour: "
             "nth_channel_view counts in memory order, so either both views have one layout or each side indexes with detail::physical_channel_index<its own view>(k); "
             "the helper returns element k of the view's channel mapping")
    R.channel_pairing(rep, fns, "T7-channel-pairing", ("boost::gil::threshold_optimal", "boost::gil::median_filter"), "obligations:T7")
    rep.floor("obligations:T7", 4)
    # ---------------------------------------------------------------- T8 empty views
    rep.rule("T8 threshold_optimal, median_filter, detail::morph: every nth_channel_view call (which forms a reference to pixel (0,0)) is dominated by the test that the source view has pixels")
    R.nonempty_guard(rep, fns, "T8-nonempty", ("boost::gil::threshold_optimal", "boost::gil::median_filter", "boost::gil::detail::morph"), "obligations:T8")
    spread_type(rep, fns)
    comparison_type(rep, fns)
    rep.floor("obligations:T8", 3)
    # ---------------------------------------------------------------- T6 staging in morph()
    rep.rule("T6 detail::morph(src, dst, ...): dilate/erode pass the same view as src and dst, so every channel is computed from src into the scratch image "
             "(morph_impl(nth_channel_view(src,i), nth_channel_view(view(scratch),i)) for i in [0, num_channels)) and dst is written once, by copy_pixels(view(scratch), dst) "
             "after the channel loop -- no write to dst precedes a read of src")
    for f in fns:
        if f["name"] != "boost::gil::detail::morph" or len(f["params"]) != 4:
            continue
        rep.count("obligations:T6")
        sv, dv = f["params"][0]["name"], f["params"][1]["name"]
        prob = []
        imgs = [dd["name"] for dn, _ in R.find(f["body"], lambda x: x.get("k") == "Decl") for dd in dn["decls"] if "boost::gil::image<" in (dd.get("ctype") or dd.get("type") or "") or "image<" in (dd.get("type") or "")]
        scratch = imgs[0] if len(imgs) == 1 else "intermediate_img"
        loops = [x for x, _ in R.find(f["body"], lambda x: x.get("k") in ("For", "While", "Do", "ForRange"))]
        impl = [(c, pth) for c, pth in R.calls_in(f["body"], lambda n: n.endswith("::morph_impl"))]
        dst_uses = [(x, pth) for x, pth in R.find(f["body"], lambda x: x.get("k") == "DeclRef" and x.get("name") == dv)]
        if len(loops) != 1 or len(impl) != 1:
            prob.append("%d loops, %d morph_impl calls" % (len(loops), len(impl)))
        else:
            lp = loops[0]
            init = R.strip(lp.get("init"))
            iv = init["decls"][0]["name"] if init and init.get("k") == "Decl" else None
            i0 = R.key(init["decls"][0].get("init")) if iv else None
            if i0 != "0" or R.key(lp.get("cond")) != "(%s < %s.num_channels())" % (iv, sv) or R.key(lp.get("inc")) not in ("(%s++)" % iv, "(++%s)" % iv):
                prob.append("channel loop (%s = %s; %s; %s)" % (iv, i0, R.key(lp.get("cond")), R.key(lp.get("inc"))))
            c, pth = impl[0]
            if not any(a is lp and fld == "body" for a, fld, _ in pth):
                prob.append("morph_impl is not called in the channel loop")
            a = [R.key(x) for x in c["args"][:2]]
            if a != ["nth_channel_view(%s,%s)" % (sv, iv), "nth_channel_view(view(%s),%s)" % (scratch, iv)]:
                prob.append("morph_impl(%s): expected channel i of the source into channel i of the scratch image" % ", ".join(a))
            # every mention of dst outside assertions/concept checks is the final copy, after the loop
            writes = []
            for x, p2 in dst_uses:
                calls = [q for q, fld, _ in p2 if q.get("k") == "Call"]
                outer = calls[0] if calls else None
                nm = outer["callee"]["name"].split("::")[-1] if outer else None
                if nm in ("dimensions", "operator==", "operator!=", "__assert_fail", "width", "height"):
                    continue
                in_loop = any(q is lp for q, fld, _ in p2)
                writes.append((nm, R.key(outer) if outer else None, in_loop, outer.get("line") if outer else 0))
            fin = [w for w in writes if w[1] == "copy_pixels(view(%s),%s)" % (scratch, dv)]
            if len(writes) != 1 or len(fin) != 1:
                prob.append("uses of the destination: %s, expected the single copy_pixels(view(scratch), dst)" % [w[1] for w in writes])
            elif fin[0][2]:
                prob.append("copy_pixels(view(scratch), dst) is inside the channel loop: with src == dst (dilate, erode) the channels after the first are computed from the overwritten source")
            elif fin[0][3] < lp.get("line", 0):
                prob.append("copy_pixels(view(scratch), dst) precedes the channel loop")
        key = "T6:detail::morph staging"
        if prob:
            rep.violation("T6-staging", key, R.fn_where(f), {"problems": prob})
        else:
            rep.ok("T6-staging", key, "loop over all channels into the scratch image, one copy to dst after the loop")
    rep.floor("obligations:T6", 1)


def rename(k, f):
    """parameters -> $i, locals -> Li (declaration order): the composition is compared up to renaming"""
    import re
    names = {}
    for i, p in enumerate(f["params"]):
        if p["name"]:
            names[p["name"]] = "$%d" % i
    n = 0
    for dn, _ in R.find(f["body"], lambda x: x.get("k") == "Decl"):
        for dd in dn["decls"]:
            if dd.get("name") and dd["name"] not in names:
                names[dd["name"]] = "L%d" % n
                n += 1
    return re.sub(r"[A-Za-z_][A-Za-z_0-9]*", lambda m: names.get(m.group(0), m.group(0)), k)


def canon_val(v, px):
    return "px" if v == px else v


def spread_type(rep, fns):
    """T9: Otsu scales the pixel's distance from the minimum by the spread max - min of the channel values to index its 256 bins. The spread of a signed channel type does
    not fit that type (int8: up to 255, int16: up to 65535): narrowed back to it, it turns negative and the bin index leaves the histogram."""
    from .ast.rules import _TYRANGE, _cty
    rep.rule("T9 detail::otsu_impl: a difference of two values of the source channel type T that is converted to an integral type N (a declaration, an assignment, a cast) satisfies "
             "max(N) >= max(T) - min(T): the spread max - min of a signed channel does not fit the channel type. Witness: max(T) - min(T)")
    seen = set()
    for f in fns:
        if f["name"] != "boost::gil::detail::otsu_impl" or f.get("body") is None:
            continue
        g = R.canonize(f)
        # the channel type of this instantiation: the type of the running extremes (locals compared with and assigned from a pixel channel)
        bad = []
        ndiff = 0
        for x, _ in R.find(f["body"], lambda x: x.get("k") in ("ImplicitCast", "ExplicitCast") and x.get("from_c") is not None):
            frm, to = _cty(x["from_c"]), _cty(x["to_c"])
            e = x["e"]
            while isinstance(e, dict) and e.get("k") == "Paren":
                e = e["e"]
            if not (isinstance(e, dict) and e.get("k") == "Binary" and e.get("op") == "-") or to not in _TYRANGE or frm not in _TYRANGE:
                continue
            # both operands of the difference are values of one narrower type T (promoted for the subtraction)
            ts = []
            for side in (e["l"], e["r"]):
                n = side
                while isinstance(n, dict) and n.get("k") in ("Paren", "ImplicitCast") and n.get("cast") in (None, "LValueToRValue", "NoOp", "IntegralCast"):
                    if n.get("k") == "ImplicitCast" and n.get("cast") == "IntegralCast":
                        ts.append(_cty(n["from_c"]))
                        break
                    n = n.get("e")
                else:
                    ts.append(_cty((n or {}).get("ctype") or (n or {}).get("type") or ""))
            if len(ts) != 2 or ts[0] != ts[1] or ts[0] not in _TYRANGE:
                continue
            ndiff += 1
            T = ts[0]
            spread = _TYRANGE[T][1] - _TYRANGE[T][0]
            if _TYRANGE[to][1] < spread:
                bad.append({"difference": R.key(e)[:60], "of values of type": T, "stored as": to, "witness": "%d - (%d) = %d > %d" % (_TYRANGE[T][1], _TYRANGE[T][0], spread, _TYRANGE[to][1]), "line": x.get("line")})
        chan = sorted({b["of values of type"] for b in bad}) or ["-"]
        key = "T9:detail::otsu_impl:spread"
        tag = (bool(bad), tuple(chan))
        if tag in seen or (not bad and any(not t[0] for t in seen)):
            continue
        seen.add(tag)
        rep.count("obligations:T9")
        if bad:
            rep.violation("T9-spread-type", key, R.fn_where(f), {"narrowed spreads": bad[:3], "example": "gray16s image with values -20000..20000: range = 40000 stored in a short is -25536, the bin index (px - min) * 255 / range is negative"})
        else:
            rep.ok("T9-spread-type", key, "%d channel differences, none narrowed below the spread of its type" % ndiff)
    rep.floor("obligations:T9", 1)


def comparison_type(rep, fns):
    """T1b: the decision tables of T1 are over the VALUES of pixel and threshold. `px > t` is that comparison only if it is carried out in a type that holds both values:
    between int32_t and uint32_t the usual arithmetic conversions turn the signed operand into an unsigned one."""
    from .ast.rules import _TYRANGE, _cty
    rep.rule("T1b in the lambdas of threshold_binary / threshold_truncate, instantiated for a signed 32-bit source with an unsigned 32-bit destination and vice versa, no operand of the "
             "comparison is converted from a signed to an unsigned integral type (an implicit, value-changing conversion): the comparison is performed in a type that holds both operands. "
             "Witness: pixel -1 against the threshold 0u")
    seen = {}
    for f in fns:
        if not re.match(r"boost::gil::threshold_(binary|truncate)$", f["name"]) or f.get("body") is None:
            continue
        st = [p["type"] for p in f["params"][:2]]
        for lam, _ in R.find(f["body"], lambda x: x.get("k") == "Lambda"):
            for c, _ in R.find(lam["body"], lambda x: x.get("k") == "Binary" and x.get("op") in (">", "<", ">=", "<=")):
                bad = []
                for side in (c["l"], c["r"]):
                    for x, _ in R.find(side, lambda y: y.get("k") == "ImplicitCast" and y.get("cast") == "IntegralCast" and y.get("from_c") is not None and "const" not in y):
                        frm, to = _cty(x["from_c"]), _cty(x["to_c"])
                        if frm in _TYRANGE and to in _TYRANGE and _TYRANGE[frm][0] < 0 and _TYRANGE[to][0] == 0:
                            bad.append({"operand": R.key(x["e"])[:40], "converted from": frm, "to": to})
                key = "T1b:%s:comparison type" % f["name"].split("::")[-1]
                if key not in seen or (bad and not seen[key][0]):
                    seen[key] = (bad, f)
    for key, (bad, f) in sorted(seen.items()):
        rep.count("obligations:T1b")
        if bad:
            rep.violation("T1b-comparison-type", key, R.fn_where(f), {"sign-changing conversions in the comparison": bad[:4], "example": "threshold_binary(gray32s view holding -1, gray32 view, 0u): -1 > 0u is true, the output is max instead of 0"})
        else:
            rep.ok("T1b-comparison-type", key, "no operand is converted from signed to unsigned")
    rep.floor("obligations:T1b", 2)
