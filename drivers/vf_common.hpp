// Shared by the /verif drivers: the view kinds the library provides and "probe" functions that
// turn a pixel reference into an integer naming the memory cell it denotes. Drivers are compiled
// to IR / AST and analysed, never executed.
#pragma once
#include <boost/gil.hpp>
#include <cstdint>

namespace vf {
using namespace boost::gil;
using iptr = std::intptr_t;
namespace mp11 = boost::mp11;

// ---- view kinds ------------------------------------------------------------------------
using k_inter   = rgb8_view_t;                                   // interleaved, pointer x-iterator
using k_interc  = rgb8c_view_t;
using k_gray16  = gray16_view_t;
using k_g16step = dynamic_xy_step_type<gray16_view_t>::type;          // single channel, step in x
using k_rgba32f = rgba32f_view_t;
using k_planar  = rgb8_planar_view_t;                            // planar_pixel_iterator
using k_planar16= rgb16_planar_view_t;
using k_xstep   = rgb8_step_view_t;                              // memory_based_step_iterator in x
using k_xystep  = dynamic_xy_step_type<rgb8_view_t>::type;       // step in x (y is always memunit-stepped)
using k_xyT     = dynamic_xy_step_transposed_type<rgb8_view_t>::type;
using k_pstep   = dynamic_xy_step_type<rgb8_planar_view_t>::type;
using k_pT      = dynamic_xy_step_transposed_type<rgb8_planar_view_t>::type;
using bgr565_pixel_t = packed_pixel_type<std::uint16_t, mp11::mp_list_c<unsigned,5,6,5>, bgr_layout_t>::type;
using rgb565_pixel_t = packed_pixel_type<std::uint16_t, mp11::mp_list_c<unsigned,5,6,5>, rgb_layout_t>::type;
using k_packed  = image<bgr565_pixel_t,false>::view_t;
using k_packed_rgb = image<rgb565_pixel_t,false>::view_t;
using k_packstep= dynamic_xy_step_type<k_packed>::type;
using bits121_img = bit_aligned_image3_type<1,2,1,rgb_layout_t>::type;   // 4-bit pixel, uint8 bit field
using bits233_img = bit_aligned_image3_type<2,3,3,bgr_layout_t>::type;   // 8-bit pixel, uint16 bit field (see C01)
using bits565_img = bit_aligned_image3_type<5,6,5,rgb_layout_t>::type;
using bits1_img   = bit_aligned_image1_type<1,gray_layout_t>::type;
using bits7_img   = bit_aligned_image3_type<2,2,3,rgb_layout_t>::type;   // 7-bit pixel: offsets cycle through all residues
using k_bits    = bits121_img::view_t;
using k_bits7   = bits7_img::view_t;
using k_bits1   = bits1_img::view_t;
using k_bitstep = dynamic_xy_step_type<k_bits7>::type;
using k_nth     = nth_channel_view_type<rgb8_view_t>::type;
using k_kth     = kth_channel_view_type<1, rgb8_view_t>::type;
using k_ccv     = color_converted_view_type<rgb8_view_t, gray8_pixel_t>::type;
using addr_pixel_t = pixel<std::int64_t, gray_layout_t>;
// dereference adaptor whose "value" is the address of the pixel it was applied to
struct addr_deref_fn {
    using const_t = addr_deref_fn; using value_type = addr_pixel_t; using reference = value_type;
    using const_reference = value_type; using argument_type = rgb8_pixel_t const&; using result_type = reference;
    static constexpr bool is_mutable = false;
    result_type operator()(rgb8_pixel_t const& p) const { return result_type((std::int64_t)&p); }
};
using k_deref   = rgb8c_view_t::add_deref<addr_deref_fn>::type;
// the same with state: the recorded cell is shifted by a run-time offset held in the function object, so a view
// transformation that rebuilds the iterators with a default-constructed function object is visible
struct addr_off_deref_fn {
    using const_t = addr_off_deref_fn; using value_type = addr_pixel_t; using reference = value_type;
    using const_reference = value_type; using argument_type = rgb8_pixel_t const&; using result_type = reference;
    static constexpr bool is_mutable = false;
    std::int64_t off = 0;
    result_type operator()(rgb8_pixel_t const& p) const { return result_type((std::int64_t)&p + off); }
};
using k_derefs  = rgb8c_view_t::add_deref<addr_off_deref_fn>::type;

// virtual view: the dereference function returns its point packed into a pixel so that the probe
// sees which point reached it
struct point_deref_fn {
    using const_t = point_deref_fn; using value_type = addr_pixel_t; using reference = value_type;
    using const_reference = value_type; using argument_type = point_t; using result_type = reference;
    static constexpr bool is_mutable = false;
    result_type operator()(point_t const& p) const { return result_type(std::int64_t(p.x * 1000003 + p.y)); }
};
using k_virt = image_view<virtual_2d_locator<point_deref_fn,false>>;

// ---- probes ----------------------------------------------------------------------------
// C = channel index (memory order) for models whose channels live in separate cells
template <int C, typename T, typename L> inline iptr probe(pixel<T,L>& p)        { return (iptr)&p; }
template <int C, typename T, typename L> inline iptr probe(pixel<T,L> const& p)  { return (iptr)&p; }
template <int C, typename B, typename CR, typename L> inline iptr probe(packed_pixel<B,CR,L>& p)       { return (iptr)&p; }
template <int C, typename B, typename CR, typename L> inline iptr probe(packed_pixel<B,CR,L> const& p) { return (iptr)&p; }
template <int C, typename R, typename CS> inline iptr probe(planar_pixel_reference<R,CS> const& p) { return (iptr)&at_c<C>(p); }
template <int C, typename BF, typename CB, typename L, bool M> inline iptr probe(bit_aligned_pixel_reference<BF,CB,L,M> const& p)
{ return (iptr)p.bit_range().current_byte() * 8 + p.bit_range().bit_offset(); }
template <int C> inline iptr probe(std::uint8_t& p) { return (iptr)&p; }          // nth_channel of interleaved: pixel<uint8,gray>
template <int C> inline iptr probe(addr_pixel_t const& p) { return (iptr)at_c<0>(p); }   // virtual / deref-adapted view: the recorded cell

// probe of a view element; deref-adapted views are probed on the underlying iterator
template <int C, typename V> inline iptr probe_at(V const& v, std::ptrdiff_t x, std::ptrdiff_t y) { return probe<C>(v(x, y)); }

}  // namespace vf
