// C15 replay: convolve_2d multiplies the source channel and the kernel tap in their common type before the float accumulator sees the product
// g++ -std=c++14 -I/repo/include convolve_2d_integer_product.cpp && ./a.out
#include <boost/gil.hpp>
#include <boost/gil/image_processing/convolve.hpp>
#include <cstdio>
namespace gil = boost::gil;
int main()
{
    gil::gray32_image_t s(1, 1); gil::gray32f_image_t d(1, 1);
    gil::view(s)(0, 0) = gil::gray32_pixel_t(5u);
    int kv[1] = {-1}; gil::detail::kernel_2d<int> k(kv, 1, 0, 0);
    gil::detail::convolve_2d(gil::const_view(s), k, gil::view(d));
    float got = gil::view(d)(0, 0)[0];
    std::printf("5 * (-1) = %g (expected -5)\n", got);
    return got == -5.0f ? 0 : 1;
}
