"""C17 samplers / resampling / affine algebra -- path enumeration over the instantiated AST with a polynomial
normaliser (weights) and an integer difference-bound prover (in-bounds reads)."""
import os, re
from . import common as C
from .ast import rules as R
from .ir.poly import Poly

LEVEL = "other"
EXPLANATION = ("Static analysis over the instantiated AST. bilinear_sampler: every leaf of the border case analysis is "
               "enumerated with the locator moves made on the way; in each leaf the weights are products of factors from "
               "{1, frac, 1-frac} and sum to 1 as polynomials (convex combination), every source read (relative to floor(p), "
               "after the ++loc moves) is proved inside [0,w)x[0,h) from the conditions that dominate it by an integer "
               "difference-bound prover, and `result` is written only after the outside test. nearest_neighbor_sampler reads "
               "src(center) only under the four-sided test. resample_pixels writes xit[x] from sample(sampler, src, "
               "transform(map,(x,y))) for every destination position. matrix3x2: point*matrix has the documented form, "
               "(p*m1)*m2 == p*(m1*m2) and inverse(m)*m == identity as polynomial identities (the latter times det), "
               "get_translate/scale/rotate entries, resize_view/resample_subimage delegation. Not decided: interpolated "
               "values and rounding helper behaviour for huge coordinates.")

DRIVER = '''#include "vf_common.hpp"
#include <boost/gil/extension/numeric/sampler.hpp>
#include <boost/gil/extension/numeric/resample.hpp>
#include <boost/gil/extension/numeric/affine.hpp>
using namespace vf;
void inst(rgb8_view_t const& a, rgb8_view_t const& b, gray16_view_t const& c, gray16_view_t const& d){
  rgb8_pixel_t r; gray16_pixel_t g; point<double> p(1.5, 2.5); point<float> pf(1.5f, 2.5f);
  sample(bilinear_sampler(), a, p, r); sample(bilinear_sampler(), c, pf, g); sample(nearest_neighbor_sampler(), a, p, r); sample(nearest_neighbor_sampler(), c, pf, g);
  matrix3x2<double> m = matrix3x2<double>::get_rotate(0.5) * matrix3x2<double>::get_translate(1.0, 2.0) * matrix3x2<double>::get_scale(2.0, 3.0);
  m = m * matrix3x2<double>::get_translate(p) * matrix3x2<double>::get_scale(p) * matrix3x2<double>::get_scale(2.0);
  resample_pixels(a, b, m, bilinear_sampler()); resample_pixels(c, d, m, nearest_neighbor_sampler());
  resize_view(a, b, bilinear_sampler()); resample_subimage(a, b, 0., 0., 4., 4., 0.1, nearest_neighbor_sampler());
  matrix3x2<double> i = inverse(m); point<double> q = p * i; q = transform(m, q); (void)q; i *= m;
}
// signed destination channels: the accumulator can be negative
// packed and bit-aligned channels are integral too (their value type is a class: std::numeric_limits knows nothing about it)
typedef packed_image3_type<std::uint16_t, 5, 6, 5, rgb_layout_t>::type p565_img; typedef bit_aligned_image3_type<5, 7, 6, bgr_layout_t>::type b576_img;
void inst_packed(p565_img::const_view_t const& a, b576_img::const_view_t const& b){
  p565_img::value_type r; b576_img::value_type g; point<double> p(1.5, 2.5);
  sample(bilinear_sampler(), a, p, r); sample(bilinear_sampler(), b, p, g);
}
void inst_signed(gray8s_view_t const& a, rgb16s_view_t const& b){
  gray8s_pixel_t r; rgb16s_pixel_t g; point<double> p(1.5, 2.5);
  sample(bilinear_sampler(), a, p, r); sample(bilinear_sampler(), b, p, g);
}
'''
W = "include/boost/gil/extension/numeric/"


def run(rep):
    C.need_tools(C.ASTDUMP)
    wd = C.workdir("C17")
    src = os.path.join(wd, "c17_driver.cpp")
    open(src, "w").write(DRIVER)
    d = C.astdump(src, os.path.join(wd, "c17.json"),
                  ["^boost::gil::sample$", "^boost::gil::resample_pixels$", "^boost::gil::resample_subimage$", "^boost::gil::resize_view$",
                   "^boost::gil::operator\\*$", "^boost::gil::inverse$", "^boost::gil::transform$", "^boost::gil::matrix3x2::get_(rotate|translate|scale)$", "^boost::gil::matrix3x2::operator\\*=$", "^boost::gil::matrix3x2::operator=$",
                   "^boost::gil::cast_channel_fn::", "^boost::gil::cast_pixel$"])
    fns = d["functions"]
    rep.units.append("c17_driver.cpp: %d instantiated functions" % len(fns))
    rep.trusted += ["clang front end (instantiated AST)", "harness/ast/rules.py (guards, polynomial normaliser, difference-bound prover)",
                    "ifloor(p) <= p < ifloor(p)+1 so frac lies in [0,1) (utilities.hpp, not analysed)"]
    bilinear(rep, fns)
    narrowing(rep, fns)
    nearest(rep, fns)
    resample(rep, fns)
    affine(rep, fns)
    rep.floor("bilinear_leaves", 18)
    rep.floor("obligations:B-read", 30)


# ------------------------------------------------------------------------------------------------
def narrowing(rep, fns):
    """B4: the weighted sum is accumulated in floating point; the weights (products of f and 1-f) add up to 1 only up to rounding,
    so the conversion to an integral destination channel must round to nearest: truncation can end one below the smallest
    contributing value, which is not a convex combination (a constant image is not reproduced)."""
    rep.rule("B4 bilinear: the floating-point accumulator is converted to an integral destination channel by rounding to nearest "
             "(cast_pixel -> cast_channel_fn, helper calls followed); a bare conversion is refuted with a constant image: value v, fraction f such that v*(1-f) + v*f < v in double")
    by_id = {f.get("id"): f for f in fns}
    ops = [f for f in fns if f["name"] == "boost::gil::cast_channel_fn::operator()"]
    seen = set()
    for f in ops:
        st, dt = f["params"][0]["type"], f["params"][1]["type"]
        fp = re.search(r"\b(double|float|long double)\b", st) is not None
        packed = re.search(r"packed_(dynamic_)?channel_(reference|value)<", dt) is not None
        integral = packed or (re.search(r"\b(unsigned char|signed char|char|unsigned short|short|unsigned int|int|unsigned long|long)\b", dt) is not None and "float" not in dt)
        if not (fp and integral) or (st, dt) in seen:
            continue
        seen.add((st, dt))
        rep.count("obligations:B4")
        g = R.canonize(f)
        key = "B4:cast_channel_fn(%s -> %s)" % (st.replace("const ", "").replace(" &", ""), dt.replace(" &", ""))
        asg = [(k, x) for k, x, _ in R.effects(g["body"]) if k.startswith("($1 = ")]
        if len(asg) != 1:
            rep.incon("B4-narrowing", key, {"unrecognised": "assignments to the destination: %s" % [k for k, _ in asg]})
            continue
        rhs = R.strip(asg[0][1].get("r") or asg[0][1]["args"][1])
        # follow one or two helper calls (tag dispatch): substitute the argument that carries the source value
        expr = None
        for _ in range(3):
            n = R.strip(rhs)
            while isinstance(n, dict) and n.get("k") in ("Construct", "FunctionalCast", "Temporary") and len(n.get("args", [])) == 1:
                n = R.strip(n["args"][0])
            # the value type of a packed channel is a class: its conversion operator to the underlying integer follows the helper call
            if isinstance(n, dict) and n.get("k") == "Call" and re.search(r"::operator [\w ]+$", n["callee"].get("name", "")) and not n.get("args") and isinstance(n.get("obj"), dict):
                n = R.strip(n["obj"])
            if isinstance(n, dict) and n.get("k") == "Call" and n["callee"].get("id") in by_id and n["callee"]["name"].startswith("boost::gil::cast_channel_fn::"):
                h = R.canonize(by_id[n["callee"]["id"]])
                rets = [x for x, _ in R.find(h["body"], lambda x: x.get("k") == "Return")]
                srcs = [i for i, a in enumerate(n["args"]) if R.key(a) == "$0"]
                if len(rets) != 1 or len(srcs) != 1:
                    break
                expr = R.key(rets[0]["e"]).replace("$%d" % srcs[0], "SRC")
                break
            expr = R.key(n).replace("$0", "SRC")
            break
        mcl = re.fullmatch(r"\w+\{(.*)\}", expr or "")       # DstValue(x) for a class value type (packed_channel_value): the integer conversion happens in its constructor
        if mcl:
            expr = mcl.group(1)
        ROUND = (r"\(\(SRC < 0(\.0)?\) \? \(SRC - 0\.5\) : \(SRC \+ 0\.5\)\)", r"l?l?round\(SRC\)", r"(nearbyint|rint)\(SRC\)", r"floor\(\(SRC \+ 0\.5\)\)")
        HALF_UP = r"\(SRC \+ 0\.5\)"          # followed by the truncating conversion: nearest only for SRC >= 0
        signed_dst = re.search(r"\bunsigned\b", dt) is None and not packed
        if expr is not None and any(re.fullmatch(p_, expr) for p_ in ROUND):
            rep.ok("B4-narrowing", key, expr)
        elif expr is not None and re.fullmatch(HALF_UP, expr) and not signed_dst:
            rep.ok("B4-narrowing", key, expr + " (unsigned destination: the accumulator is never negative)")
        elif expr is not None and re.fullmatch(HALF_UP, expr):
            rep.violation("B4-narrowing", key, R.fn_where(f), {"conversion": "dst = value_type(accumulator + 0.5): the conversion truncates towards zero, so this rounds to nearest only for non-negative values",
                          "witness": {"accumulator": -3.0, "stored": -2, "nearest": -3}, "consequence": "a constant image of a negative value is not reproduced; the value at integer coordinates is not the source pixel"})
        elif expr == "SRC":
            # witness from the weights B1 establishes: two taps with weights (1-f) and f on a constant image
            wit = None
            mbits = re.search(r"packed_(?:dynamic_)?channel_reference<[^,]+, (?:\d+, )?(\d+), (?:true|false)>|packed_channel_value<(\d+)>", dt)
            vals = ((float(2 ** int(mbits.group(1) or mbits.group(2)) - 1),) if mbits else ()) + (255.0, 65535.0, 1.0, 100.0)
            if mbits:
                vals = tuple(v for v in vals if v <= vals[0])
            for v in vals:
                for den in range(2, 40):
                    for num in range(1, den):
                        fr = num / den
                        acc = 0.0
                        acc += v * (1 - fr)
                        acc += v * fr
                        if acc < v:
                            wit = {"constant value": v, "fraction": "%d/%d" % (num, den), "accumulated": repr(acc), "stored": int(acc)}
                            break
                    if wit:
                        break
                if wit:
                    break
            rep.violation("B4-narrowing", key, R.fn_where(f), {"conversion": "dst = value_type(accumulator): truncation", "witness": wit,
                          "consequence": "the result is below every contributing pixel: not a convex combination; resize_view of a constant image changes it"})
        else:
            rep.incon("B4-narrowing", key, {"unrecognised": expr})
    rep.floor("obligations:B4", 2)


def bilinear(rep, fns):
    rep.rule("B1 bilinear: per leaf, weights are products of factors from {1, f, 1-f} and sum to 1")
    rep.rule("B2 bilinear: every read relative to floor(p) (after locator moves) is inside [0,w)x[0,h) under the dominating conditions")
    rep.rule("B3 bilinear: `result` is only written after the outside test has failed")
    for f in fns:
        if f["name"] != "boost::gil::sample" or "bilinear_sampler" not in f["params"][0]["type"]:
            continue
        srcn, pn, resn = f["params"][1]["name"], f["params"][2]["name"], f["params"][3]["name"]
        body = f["body"]["c"]
        # locate p0 / frac / loc declarations
        decls = {}
        for x, p in R.find(f["body"], lambda x: x.get("k") == "Decl"):
            for dd in x["decls"]:
                if dd.get("name"):
                    decls[dd["name"]] = dd
        p0 = next((n for n, dd in decls.items() if "ifloor" in R.key(dd.get("init"))), None)
        frac = next((n for n, dd in decls.items() if dd.get("init") is not None and p0 and ("%s.x - %s.x" % (pn, p0)) in R.key(dd["init"]).replace("(", "").replace(")", "")), None)
        loc = next((n for n, dd in decls.items() if "xy_at" in R.key(dd.get("init"))), None)
        tag = "sample(bilinear_sampler)<%s>" % f["params"][1]["type"].split("<")[0][-20:]
        if not (p0 and frac and loc) or R.key(decls[loc]["init"]) != "%s.xy_at(%s.x,%s.y)" % (srcn, p0, p0):
            rep.fail_analysis("%s: cannot identify floor point / fraction / locator (p0=%s frac=%s loc=%s)" % (tag, p0, frac, loc))
            continue
        fx, fy = Poly.atom("fx"), Poly.atom("fy")
        one = Poly.const(1)
        allowed = [a * b for a in (one, fx, one - fx) for b in (one, fy, one - fy)]

        def weight_poly(n):
            n = R.strip(n)
            k = R.key(n)
            if k == "%s.x" % frac:
                return fx
            if k == "%s.y" % frac:
                return fy
            if n.get("k") == "Binary" and n["op"] in ("+", "-", "*"):
                a, b = weight_poly(n["l"]), weight_poly(n["r"])
                return a + b if n["op"] == "+" else (a - b if n["op"] == "-" else a * b)
            if "const" in n or n.get("k") == "Int":
                return Poly.const(int(n.get("const", n.get("v"))))
            return Poly.atom(k)
        # walk statements in order, tracking locator offset; enumerate leaves
        leaves = []

        def visit(stmts, dx, dy, reads, conds):
            """returns list of terminal states after executing stmts sequentially"""
            states = [(dx, dy, list(reads), list(conds))]
            for s in stmts:
                s = R.strip(s)
                nxt = []
                for (dx_, dy_, rd, cd) in states:
                    k = s.get("k")
                    if k == "If":
                        tb = s["then"]["c"] if R.strip(s["then"]).get("k") == "Compound" else [s["then"]]
                        eb = ([] if s.get("else") is None else (s["else"]["c"] if R.strip(s["else"]).get("k") == "Compound" else [s["else"]]))
                        if R.is_exit(s["then"]) and s.get("else") is None:
                            nxt.append((dx_, dy_, rd, cd + [(s["cond"], False)]))
                            continue
                        nxt += visit(tb, dx_, dy_, rd, cd + [(s["cond"], True)])
                        nxt += visit(eb, dx_, dy_, rd, cd + [(s["cond"], False)])
                    elif (k == "Unary" and s["op"] in ("++", "--") and R.key(s["e"]) in ("%s.y()" % loc, "%s.x()" % loc)) or \
                            (k == "Call" and s.get("op") in ("++", "--") and R.key(s["args"][0]) in ("%s.y()" % loc, "%s.x()" % loc)):
                        step = 1 if s["op"] == "++" else -1
                        tgt = R.key(s["e"]) if k == "Unary" else R.key(s["args"][0])
                        if tgt.endswith(".y()"):
                            nxt.append((dx_, dy_ + step, rd, cd))
                        else:
                            nxt.append((dx_ + step, dy_, rd, cd))
                    elif k == "Call" and s.get("op") == "()" and "add_dst_mul_src" in R.key(s["args"][0]):
                        ref = R.key(s["args"][1])
                        # a reference proxy converted to the view's value type: packed_pixel{ref,nullptr} / pixel{ref,nullptr}
                        mw = re.fullmatch(r"\w+\{(.*),nullptr\}", ref)
                        if mw:
                            ref = mw.group(1)
                        off = ref_offset(ref, loc)
                        if off is None:
                            raise C.AnalysisBroken("%s: source reference %s not understood" % (tag, ref))
                        nxt.append((dx_, dy_, rd + [((dx_ + off[0], dy_ + off[1]), weight_poly(s["args"][2]), s.get("line"))], cd))
                    else:
                        # any other statement must not move the locator or read the source
                        txt = R.key(s)
                        if (loc + ".") in txt and ("++" in txt or "--" in txt or "+=" in txt):
                            raise C.AnalysisBroken("%s: unrecognised locator move `%s`" % (tag, txt[:80]))
                        nxt.append((dx_, dy_, rd, cd))
                states = nxt
            return states
        try:
            start = next(i for i, s in enumerate(body) if R.strip(s).get("k") == "Decl" and any(dd.get("name") == loc for dd in R.strip(s)["decls"]))
            pre = [s for s in body[:start] if R.strip(s).get("k") == "If"]
            pre_conds = []
            for s in pre:
                s = R.strip(s)
                if R.is_exit(s["then"]) and s.get("else") is None:
                    pre_conds.append((s["cond"], False))
            terminal = visit(body[start + 1:], 0, 0, [], pre_conds)
        except C.AnalysisBroken as e:
            rep.fail_analysis(str(e))
            continue
        leaves = [t for t in terminal if t[2]]
        rep.count("bilinear_leaves", len(leaves))
        ren = lambda s_: s_.replace("%s.x" % p0, "X").replace("%s.y" % p0, "Y").replace("%s.width()" % srcn, "W").replace("%s.height()" % srcn, "H")
        for li, (dx, dy, reads, conds) in enumerate(leaves):
            atoms_ = []
            for c, pos in conds:
                atoms_ += R.split_conj(c, pos)
            facts = R.linear_constraints(atoms_, ren)
            # no assumption on the size of the source: an empty view (subimage of width 0, default image) has to be refused by the function itself
            desc = " && ".join(("" if pos else "!") + ren(R.key(c)) for c, pos in conds)
            total = Poly()
            okw = True
            for (ox, oy), w, line in reads:
                total = total + w
                if w not in allowed:
                    okw = False
            key = "B1:%s:leaf[%s]" % (tag, desc[:160])
            rep.count("obligations:B-weights")
            if total == one and okw:
                rep.ok("B1-weights", key, {"reads": [list(r[0]) for r in reads], "weights": [repr(r[1]) for r in reads]})
            else:
                rep.violation("B1-weights", "B1:bilinear:leaf[%s]" % desc[:160], W + "sampler.hpp:%s" % reads[0][2],
                              {"weights": [repr(r[1]) for r in reads], "sum": repr(total), "problem": "weights are not a convex combination summing to 1"})
            for (ox, oy), w, line in reads:
                goals = [(-(Poly.atom("X") + Poly.const(ox)), "x>=0"), (Poly.atom("X") + Poly.const(ox + 1) - Poly.atom("W"), "x<w"),
                         (-(Poly.atom("Y") + Poly.const(oy)), "y>=0"), (Poly.atom("Y") + Poly.const(oy + 1) - Poly.atom("H"), "y<h")]
                missing = [nm for g, nm in goals if not R.proves(facts, (g, "<="))]
                rep.count("obligations:B-read")
                if missing:
                    rep.violation("B2-inbounds", "B2:bilinear:read(p0%+d,%+d):leaf[%s]" % (ox, oy, desc[:140]), W + "sampler.hpp:%s" % line,
                                  {"read": "src(floor(p).x%+d, floor(p).y%+d)" % (ox, oy), "cannot_prove": missing, "under": desc})
                else:
                    rep.ok("B2-inbounds", "%s read (%+d,%+d) in leaf %d" % (tag, ox, oy, li), desc[:200])
        # B3: writes to result
        writes = []
        for x, p in R.find(f["body"], lambda x: x.get("k") == "Call" and any(R.key(a) == resn for a in x.get("args", [])) or (x.get("k") == "Assign" and R.key(x["l"]) == resn)):
            gs = R.guards(p)
            writes.append((R.key(x)[:60], gs))
        rep.count("obligations:B-write")
        need = [(">=", "%s.x" % p0, "-1"), (">=", "%s.y" % p0, "-1"), ("<", "%s.x" % p0, "%s.width()" % srcn), ("<", "%s.y" % p0, "%s.height()" % srcn)]
        bad = [w for w, gs in writes if not all(R.has_atom(gs, *n) for n in need)]
        if writes and not bad:
            rep.ok("B3-write-after-test", tag, [w for w, _ in writes])
        else:
            rep.violation("B3-write-after-test", "B3:bilinear:result written before the outside test", W + "sampler.hpp", {"writes": bad or "none found"})


def ref_offset(ref, loc):
    import re
    if ref == "(*%s)" % loc:
        return (0, 0)
    m = re.fullmatch(re.escape(loc) + r"\.x\(\)\[\(?(-?\d+)\)?\]", ref)
    if m:
        return (int(m.group(1)), 0)
    m = re.fullmatch(re.escape(loc) + r"\.y\(\)\[\(?(-?\d+)\)?\]", ref)
    if m:
        return (0, int(m.group(1)))
    m = re.fullmatch(re.escape(loc) + r"\(\(?(-?\d+)\)?,\(?(-?\d+)\)?\)", ref)
    if m:
        return (int(m.group(1)), int(m.group(2)))
    return None


def nearest(rep, fns):
    rep.rule("N1 nearest_neighbor_sampler reads src(c.x,c.y) and writes result only under 0<=c.x<w && 0<=c.y<h")
    for f in fns:
        if f["name"] != "boost::gil::sample" or "nearest_neighbor_sampler" not in f["params"][0]["type"]:
            continue
        srcn, resn = f["params"][1]["name"], f["params"][3]["name"]
        reads = R.find(f["body"], lambda x: x.get("k") == "Call" and x.get("op") == "()" and len(x.get("args", [])) == 3 and R.key(x["args"][0]) == srcn)
        rep.count("obligations:N1")
        bad = []
        for c, p in reads:
            xk, yk = R.key(c["args"][1]), R.key(c["args"][2])
            gs = R.guards(p)
            need = [("<", xk, srcn + ".width()"), (">=", xk, "0"), ("<", yk, srcn + ".height()"), (">=", yk, "0")]
            miss = [n for n in need if not R.has_atom(gs, *n)]
            if miss:
                bad.append({"read": R.key(c), "missing": miss})
        rets = [R.key(x["e"]) for x, p in R.find(f["body"], lambda x: x.get("k") == "Return")]
        if reads and not bad and sorted(rets) == ["false", "true"] or (reads and not bad and set(rets) == {"True", "False"}):
            rep.ok("N1-nearest", "sample(nearest_neighbor_sampler) " + f["params"][1]["type"][-30:], {"reads": len(reads)})
        else:
            rep.violation("N1-nearest", "N1:nearest:unguarded read", W + "sampler.hpp", {"unguarded": bad, "reads": len(reads), "returns": rets})


def resample(rep, fns):
    rep.rule("R1 resample_pixels: for y in [0,dst.h), x in [0,dst.w): sample(sampler, src, transform(map,(x,y)), dst.row_begin(y)[x])")
    for f in fns:
        if f["name"] != "boost::gil::resample_pixels" or "any_image_view" in "".join(p["type"] for p in f["params"]):
            continue
        rn = R.param_renamer(f)
        calls = R.calls_in(f["body"], lambda n: n == "boost::gil::sample")
        rep.count("obligations:R1")
        ok = False
        det = {}
        if len(calls) == 1:
            c, p = calls[0]
            a = [rn(R.key(x)) for x in c["args"]]
            gs = [(op, rn(l), rn(r)) for op, l, r in R.guards(p)]
            decls = {dd["name"]: rn(R.key(dd.get("init"))) for dn, _ in R.find(f["body"], lambda x: x.get("k") == "Decl") for dd in dn["decls"] if dd.get("name")}
            det = {"args": a, "guards": gs[:8], "decls": decls}
            # identify the point variable and iterator
            import re
            m = re.fullmatch(r"transform\(\$2,(\w+)\)", a[2])
            pt = m.group(1) if m else None
            m2 = re.fullmatch(r"(\w+)\[(\w+)\.x\]", a[3])
            dims = next((n for n, v in decls.items() if v == "$1.dimensions()"), None)
            if pt and m2 and m2.group(2) == pt and a[0] == "$3" and a[1] == "$0" and dims:
                xit = m2.group(1)
                ok = decls.get(xit) == "$1.row_begin(%s.y)" % pt and decls.get(dims) == "$1.dimensions()" and \
                    R.has_atom(gs, "<", pt + ".x", dims + ".x") and R.has_atom(gs, "<", pt + ".y", dims + ".y") and \
                    R.has_atom(gs, ">=", pt + ".x", "0") and R.has_atom(gs, ">=", pt + ".y", "0")
        if ok:
            rep.ok("R1-resample", "resample_pixels " + f["params"][0]["type"][-25:], det.get("args"))
        else:
            rep.violation("R1-resample", "R1:resample_pixels", W + "resample.hpp", det)
    # delegation of resize_view / resample_subimage
    rep.rule("R2 resize_view == resample_subimage(src,dst,0,0,w,h,0,sampler); resample_subimage builds translate*scale*rotate*translate and calls resample_pixels(src,dst,mat,sampler)")
    for f in fns:
        short = f["name"].split("::")[-1]
        if short == "resize_view":
            rn = R.param_renamer(f)
            cs = [rn(R.key(c)) for c, p in R.calls_in(f["body"], lambda n: n == "boost::gil::resample_subimage")]
            rep.count("obligations:R2")
            want = "resample_subimage($0,$1,0.0,0.0,$0.width(),$0.height(),0.0,$2)"
            if len(cs) == 1 and norm_float(cs[0]) == norm_float(want):
                rep.ok("R2-delegation", "resize_view", cs)
            else:
                rep.violation("R2-delegation", "R2:resize_view", W + "resample.hpp", {"calls": cs, "documented": want})
        if short == "resample_subimage":
            rn = R.param_renamer(f)
            cs = [rn(R.key(c)) for c, p in R.calls_in(f["body"], lambda n: n == "boost::gil::resample_pixels")]
            rep.count("obligations:R2")
            locs = R.local_names(f)
            if len(cs) == 1 and R.unify(cs[0], "resample_pixels($0,$1,mat,$7)", locs, {}):
                rep.ok("R2-delegation", "resample_subimage", cs)
            else:
                rep.violation("R2-delegation", "R2:resample_subimage", W + "resample.hpp", {"calls": cs})


def norm_float(s):
    import re
    return re.sub(r"(?<![\w$.])\d+(\.\d+)?([eE][+-]?\d+)?(?![\w.])", lambda m: repr(float(m.group(0))), s)


def affine(rep, fns):
    rep.rule("A1 point*matrix == (a x + c y + e, b x + d y + f); A2 (p*m1)*m2 == p*(m1*m2); A3 inverse(m)*m == identity (times det); A4 factory entries")
    mm = pm = inv = None
    for f in fns:
        if f["name"] == "boost::gil::operator*" and len(f["params"]) == 2:
            t0, t1 = f["params"][0]["type"], f["params"][1]["type"]
            if "matrix3x2" in t0 and "matrix3x2" in t1:
                mm = f
            elif "point" in t0 and "matrix3x2" in t1:
                pm = f
        if f["name"] == "boost::gil::inverse":
            inv = f
    A = Poly.atom
    if pm is None or mm is None or inv is None:
        rep.fail_analysis("matrix3x2 operators not instantiated (point*matrix=%s matrix*matrix=%s inverse=%s)" % (bool(pm), bool(mm), bool(inv)))
        return
    # ---- A1
    pn, mn = pm["params"][0]["name"], pm["params"][1]["name"]
    ret = [x for x, _ in R.find(pm["body"], lambda x: x.get("k") == "Return")][0]
    e = R.strip(ret["e"])
    comps = e.get("c") or e.get("args") or []
    if e.get("k") not in ("InitList", "Construct") or len(comps) != 2:
        comps = first_list(ret["e"])
    ren = lambda s_: s_.replace(pn + ".", "p.").replace(mn + ".", "m.")
    got = [R.poly_of(c, ren) for c in comps]
    want = [A("m.a") * A("p.x") + A("m.c") * A("p.y") + A("m.e"), A("m.b") * A("p.x") + A("m.d") * A("p.y") + A("m.f")]
    rep.count("obligations:A")
    if got == want:
        rep.ok("A1-point-matrix", "point*matrix", [repr(g) for g in got])
    else:
        rep.violation("A1-point-matrix", "A1:point*matrix", W + "affine.hpp", {"got": [repr(g) for g in got], "documented": [repr(w) for w in want]})
    # ---- A2: composition law using the extracted formulas
    n1, n2 = mm["params"][0]["name"], mm["params"][1]["name"]
    ret = [x for x, _ in R.find(mm["body"], lambda x: x.get("k") == "Return")][0]
    args = first_list(ret["e"])
    ren2 = lambda s_: s_.replace(n1 + ".", "m1.").replace(n2 + ".", "m2.")
    prod = [R.poly_of(a, ren2) for a in args]
    rep.count("obligations:A")
    if len(prod) != 6:
        rep.fail_analysis("operator*(matrix,matrix): cannot extract the six entries")
    else:
        def apply(m, x, y):   # m: dict a..f -> Poly
            return (m["a"] * x + m["c"] * y + m["e"], m["b"] * x + m["d"] * y + m["f"])
        M1 = {k: A("m1." + k) for k in "abcdef"}
        M2 = {k: A("m2." + k) for k in "abcdef"}
        P = dict(zip("abcdef", prod))
        x, y = A("x"), A("y")
        lhs = apply(M2, *apply(M1, x, y))
        rhs = apply(P, x, y)
        if lhs == rhs:
            rep.ok("A2-composition", "(p*m1)*m2 == p*(m1*m2)", [repr(p) for p in prod])
        else:
            rep.violation("A2-composition", "A2:matrix*matrix", W + "affine.hpp", {"entries": [repr(p) for p in prod], "lhs": [repr(v) for v in lhs], "rhs": [repr(v) for v in rhs]})
    # ---- A5 compound assignment: m1 *= m2 leaves m1*m2 in m1 -- the statements are executed symbolically in order, so an entry that reads a field the
    # same function has already overwritten is seen as what it is
    rep.rule("A5 matrix3x2::operator*=: after the body every field of *this equals the entry of (*this)*m that A2 extracted (sequential symbolic execution of the "
             "assignments over polynomials, or the delegation `*this = *this * m` to the checked operator* and a field-wise operator=)")
    cm = [f for f in fns if f["name"] == "boost::gil::matrix3x2::operator*=" and f.get("body") is not None]
    asg = [f for f in fns if f["name"] == "boost::gil::matrix3x2::operator=" and f.get("body") is not None]
    if cm and len(prod) == 6:
        f5 = cm[0]
        rep.count("obligations:A5")
        mname = f5["params"][0]["name"]
        env = {k: A("m1." + k) for k in "abcdef"}
        loc = {}
        unknown = []

        def ev(n):
            n = R.strip(n)
            while isinstance(n, dict) and n.get("k") in ("ImplicitCast", "ExplicitCast", "Paren", "FunctionalCast"):
                n = R.strip(n.get("e"))
            if not isinstance(n, dict):
                raise ValueError("empty")
            k = n.get("k")
            if k == "Binary" and n.get("op") in ("+", "-", "*"):
                l, r = ev(n["l"]), ev(n["r"])
                return l + r if n["op"] == "+" else l - r if n["op"] == "-" else l * r
            if k == "Unary" and n.get("op") == "-":
                return -ev(n["e"])
            if k == "Member" and n.get("name") in env:
                bn = n.get("base")
                base = R.key(bn) if isinstance(bn, dict) else "this"
                if base in ("this", "(*this)", "This", ""):
                    return env[n["name"]]
                if base == mname:
                    return A("m2." + n["name"])
            if k == "DeclRef" and n.get("id") in loc:
                return loc[n["id"]]
            if k in ("Int", "Float") or "const" in n:
                return Poly.const(float(n.get("const", n.get("v", 0))))
            raise ValueError(R.key(n)[:60])
        final = None
        body = R.strip(f5["body"])
        try:
            for st in body.get("c", []):
                st = R.strip(st)
                kk = st.get("k")
                if kk == "Decl":
                    for dd in st["decls"]:
                        if dd.get("init") is not None:
                            loc[dd["id"]] = ev(dd["init"])
                elif kk == "Assign" and st.get("op") == "=":
                    l = R.strip(st["l"])
                    if l.get("k") == "Member" and l.get("name") in env:
                        env[l["name"]] = ev(st["r"])
                    else:
                        raise ValueError("assignment to " + R.key(l)[:40])
                elif kk == "Call" and st.get("op") == "=" and re.fullmatch(r"\(?\*?this\)?\.operator=\(\(?\(?\*this\)? \* %s\)?\)|\(\*this\) = \(\(?\*this\)? \* %s\)" % (re.escape(mname), re.escape(mname)), R.key(st)) or \
                        (kk == "Call" and R.key(st).replace(" ", "") in ("(*this)=((*this)*%s)" % mname, "this.operator=(((*this)*%s))" % mname, "this.operator=((*this)*%s)" % mname, "((*this)=((*this)*%s))" % mname)):
                    # delegation: the product is A2's, the assignment must copy field by field
                    ok_asg = bool(asg) and sorted(R.key(x) for x, _ in R.find(asg[0]["body"], lambda y: y.get("k") == "Assign")) == sorted("(%s = %s.%s)" % (c_, asg[0]["params"][0]["name"], c_) for c_ in "abcdef")
                    if not ok_asg:
                        raise ValueError("operator= is not a field-wise copy")
                    env = dict(zip("abcdef", [R.poly_of(a_, lambda s_: s_.replace(n1 + ".", "m1.").replace(n2 + ".", "m2.")) for a_ in args]))
                elif kk == "Return":
                    final = dict(env)
                else:
                    raise ValueError("statement %s" % R.key(st)[:60])
        except ValueError as e_:
            unknown.append(str(e_))
        if unknown or final is None:
            rep.incon("A5-compound", "A5:matrix3x2::operator*=", {"unrecognised": unknown or "no return"})
        else:
            diff = {c_: repr(final[c_] - P[c_]) for c_ in "abcdef" if not final[c_] == P[c_]}
            if diff:
                rep.violation("A5-compound", "A5:matrix3x2::operator*=", R.fn_where(f5), {"fields that are not the entry of (*this)*m": diff,
                              "example": "get_translate(3,0) *= get_rotate(r): f comes out as e'*sin(r) with the already updated e' instead of 3*sin(r)"})
            else:
                rep.ok("A5-compound", "A5:matrix3x2::operator*=", "all six fields equal the product's entries")
    rep.floor("obligations:A5", 1)
    # ---- A3 inverse
    mn = inv["params"][0]["name"]
    det = None
    ent = {}
    for x, p in R.find(inv["body"], lambda x: x.get("k") == "Decl"):
        for dd in x["decls"]:
            if dd.get("name") and "determinant" in dd["name"] and dd.get("init") is not None:
                det = R.poly_of(dd["init"], lambda s_: s_.replace(mn + ".", "m."))
                detname = dd["name"]
    for x, p in R.find(inv["body"], lambda x: x.get("k") == "Assign" and x.get("op") == "="):
        lk = R.key(x["l"])
        r = R.strip(x["r"])
        if "." in lk and r.get("k") == "Binary" and r.get("op") == "/" and det is not None and R.key(r["r"]) == detname:
            ent[lk.split(".")[-1]] = R.poly_of(r["l"], lambda s_: s_.replace(mn + ".", "m."))
    rep.count("obligations:A")
    if det is None or set(ent) != set("abcdef"):
        rep.fail_analysis("inverse(): cannot extract determinant/entries (%s)" % sorted(ent))
    else:
        M = {k: A("m." + k) for k in "abcdef"}
        # (inverse * m): row-vector convention, entries of inverse are ent/det
        def mul(P, Q):
            return {"a": P["a"] * Q["a"] + P["b"] * Q["c"], "b": P["a"] * Q["b"] + P["b"] * Q["d"], "c": P["c"] * Q["a"] + P["d"] * Q["c"], "d": P["c"] * Q["b"] + P["d"] * Q["d"],
                    "e": P["e"] * Q["a"] + P["f"] * Q["c"], "f": P["e"] * Q["b"] + P["f"] * Q["d"]}
        pr = mul(ent, M)      # numerators; translation entries get + Q.e*det, + Q.f*det
        pr["e"] = pr["e"] + M["e"] * det
        pr["f"] = pr["f"] + M["f"] * det
        ident = {"a": det, "b": Poly(), "c": Poly(), "d": det, "e": Poly(), "f": Poly()}
        want_det = A("m.a") * A("m.d") - A("m.b") * A("m.c")
        if pr == ident and det == want_det:
            rep.ok("A3-inverse", "inverse(m)*m == identity", {k: repr(v) for k, v in ent.items()})
        else:
            rep.violation("A3-inverse", "A3:inverse", W + "affine.hpp", {"determinant": repr(det), "numerators": {k: repr(v) for k, v in ent.items()},
                                                                          "inverse*m (times det)": {k: repr(v) for k, v in pr.items()}})
    # ---- A4 factories
    want = {"get_rotate": ["L0", "L1", "(-L1)", "L0", "0", "0"], "get_translate": [["1", "0", "0", "1", "$0.x", "$0.y"], ["1", "0", "0", "1", "$0", "$1"]],
            "get_scale": [["$0.x", "0", "0", "$0.y", "0", "0"], ["$0", "0", "0", "$1", "0", "0"], ["$0", "0", "0", "$0", "0", "0"]]}
    for f in fns:
        short = f["name"].split("::")[-1]
        if short not in want:
            continue
        rn = R.renamer(f)
        ret = [x for x, _ in R.find(f["body"], lambda x: x.get("k") == "Return")][0]
        got = [rn(R.key(a)) for a in first_list(ret["e"])]
        rep.count("obligations:A")
        w = want[short]
        cands = w if isinstance(w[0], list) else [w]
        key = "%s(%s)" % (short, ",".join(p["type"][-12:] for p in f["params"]))
        if got in cands:
            extra_ok = True
            if short == "get_rotate":
                decls = {rn(dd["name"]): rn(R.key(dd.get("init"))) for dn, _ in R.find(f["body"], lambda x: x.get("k") == "Decl") for dd in dn["decls"] if dd.get("name")}
                extra_ok = decls.get("L0") == "cos($0)" and decls.get("L1") == "sin($0)"
            if extra_ok:
                rep.ok("A4-factory", key, got)
                continue
        rep.violation("A4-factory", "A4:" + key, W + "affine.hpp", {"entries": got, "documented": cands})
    rep.floor("obligations:A", 6)


def first_list(n):
    n = R.strip(n)
    while n is not None and n.get("k") in ("Construct", "InitList"):
        items = n.get("args") if n.get("k") == "Construct" else n.get("c")
        if items is None:
            return []
        if len(items) == 1 and R.strip(items[0]).get("k") in ("Construct", "InitList"):
            n = R.strip(items[0])
            continue
        return items
    return []
