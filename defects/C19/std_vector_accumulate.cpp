// C19 replay: fill_histogram(view, std::vector&, accumulate = true) resizes -- and so shrinks -- the vector: counts of an earlier 16-bit image are dropped
// g++ -std=c++14 -I/repo/include std_vector_accumulate.cpp && ./a.out
#include <boost/gil.hpp>
#include <boost/gil/histogram.hpp>
#include <boost/gil/extension/histogram/std.hpp>
#include <cstdio>
namespace gil = boost::gil;
int main()
{
    gil::gray16_image_t a(2, 1); gil::view(a)(0, 0) = gil::gray16_pixel_t(1000); gil::view(a)(1, 0) = gil::gray16_pixel_t(7);
    gil::gray8_image_t b(1, 1, gil::gray8_pixel_t(7));
    std::vector<int> v;
    gil::fill_histogram(gil::view(a), v);
    gil::fill_histogram(gil::view(b), v, true);
    long total = 0; for (int x : v) total += x;
    std::printf("size %zu, total %ld (expected 3 pixels counted)\n", v.size(), total);
    return total == 3 ? 0 : 1;
}
