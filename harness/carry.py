"""Row-carry arithmetic of iterator_from_2d (C03 rule L9): a symbolic proof over the AST of advance()/increment()/
decrement()/distance_to() that the linear index  n = y*W + x  moves by exactly d and x stays in [0,W).

Values are polynomials over cx (=_coords.x), cy, W (=_width), d and floor atoms F[p] = floor(p / W).
C's `/` and `%` truncate towards zero; they are rewritten to floor forms only when the sign of the numerator is
*proved* from the facts of the branch (class invariant 0 <= cx < W, W >= 1, and the branch condition) by substituting
non-negative slack variables and checking that every coefficient is non-negative. Floor atoms are normalised with
floor((p + k*W)/W) = k + floor(p/W) and floor((-m-1)/W) = -floor(m/W) - 1, so that equal quotients get equal atoms.
A failed identity is reported only with a concrete witness (small integers satisfying the facts, evaluated with C
semantics)."""
import itertools, re
from .ir.poly import Poly
from .ast import rules as R

W = Poly.atom("W")


class Unrecognised(Exception):
    pass


def nonneg(p, slack):
    """p >= 0 for all values allowed by the facts: after the slack substitution every coefficient is >= 0"""
    q = p.subst(slack)
    return all(c >= 0 for c in q.t.values())


def split_W(p):
    """p = k*W + rest with rest free of W"""
    k, rest = {}, {}
    for mon, c in p.t.items():
        if "W" in mon:
            m = list(mon)
            m.remove("W")
            k[tuple(m)] = k.get(tuple(m), 0) + c
        else:
            rest[mon] = c
    return Poly(k), Poly(rest)


def floor_div(p):
    """floor(p / W) as a polynomial over floor atoms, normalised"""
    k, rest = split_W(p)
    if not rest.t:
        return k
    if rest.is_const():
        c = rest.const_value()
        if c == 0:
            return k
        # floor(c/W): only -1 <= c < 0 or 0 <= c < W is decidable without knowing W; keep an atom
    lead = None
    for mon, c in sorted(rest.t.items(), key=lambda kv: (len(kv[0]), kv[0])):
        if mon != ():
            lead = c
            break
    if lead is not None and lead < 0:
        m = -rest - Poly.const(1)
        return k - Poly.atom("F[%r]" % m) - Poly.const(1)
    return k + Poly.atom("F[%r]" % rest)


class Sym:
    def __init__(self, env, slack):
        self.env, self.slack = env, slack
        self.mods = []          # numerators of % (must be >= 0 so that the C remainder lies in [0,W))

    def ev(self, n):
        n = R.strip(n)
        k = n.get("k")
        if k == "Paren":
            return self.ev(n["e"])
        if k == "Int":
            return Poly.const(int(n["v"]))
        key = R.key(n)
        if key in self.env:
            return self.env[key]
        if "const" in n and R.is_lit(str(n["const"])):
            return Poly.const(int(n["const"]))
        if k == "Unary" and n["op"] == "-":
            return -self.ev(n["e"])
        if k == "Binary":
            op = n["op"]
            if op in ("+", "-", "*"):
                a, b = self.ev(n["l"]), self.ev(n["r"])
                return a + b if op == "+" else (a - b if op == "-" else a * b)
            if op in ("/", "%"):
                a, b = self.ev(n["l"]), self.ev(n["r"])
                if b != W:
                    raise Unrecognised("division by %r" % b)
                if nonneg(a, self.slack):
                    q = floor_div(a)
                elif nonneg(-a, self.slack):
                    q = -floor_div(-a)
                else:
                    raise Unrecognised("sign of the numerator %r is not determined by the branch facts" % a)
                if op == "/":
                    return q
                if not nonneg(a, self.slack):
                    raise Unrecognised("remainder of a possibly negative numerator %r" % a)
                self.mods.append(a)
                return a - W * q
        raise Unrecognised("expression %s" % key[:80])


def c_div(a, b):
    q = abs(a) // abs(b)
    return q if (a >= 0) == (b > 0) else -q


def c_eval(n, vals):
    n = R.strip(n)
    k = n.get("k")
    if k == "Paren":
        return c_eval(n["e"], vals)
    if k == "Int":
        return int(n["v"])
    key = R.key(n)
    if key in vals:
        return vals[key]
    if "const" in n and R.is_lit(str(n["const"])):
        return int(n["const"])
    if k == "Unary" and n["op"] == "-":
        return -c_eval(n["e"], vals)
    if k == "Binary":
        a, b = c_eval(n["l"], vals), c_eval(n["r"], vals)
        op = n["op"]
        if op == "+":
            return a + b
        if op == "-":
            return a - b
        if op == "*":
            return a * b
        if op == "/":
            return c_div(a, b)
        if op == "%":
            return a - b * c_div(a, b)
    raise Unrecognised("cannot evaluate %s" % key[:60])


def check_advance(f):
    """returns list of (branch name, ok, detail)"""
    body = R.strip(f["body"])
    dname = f["params"][0]["name"]
    env = {"_coords.x": Poly.atom("cx"), "_coords.y": Poly.atom("cy"), "_width": W, dname: Poly.atom("d")}
    branch_if = None
    for s in body.get("c", []):
        s = R.strip(s)
        if s.get("k") == "If" and s.get("else") is not None:
            branch_if = s
    if branch_if is None:
        raise Unrecognised("advance(): no two-way branch")
    cond = R.strip(branch_if["cond"])
    ck = R.norm_cmp(cond["op"], R.key(cond["l"]), R.key(cond["r"])) if cond.get("k") == "Binary" else None
    if ck not in (R.norm_cmp(">=", "(_coords.x + %s)" % dname, "0"),):
        raise Unrecognised("advance(): branch condition %s" % (ck,))
    # the local 2-D offset (role: the variable whose .x and .y both arms assign), whatever its name
    import re as _re
    tg = [R.key(a["l"]) for a, _ in R.find(branch_if["then"], lambda x: x.get("k") == "Assign")]
    m = _re.fullmatch(r"(\w+)\.x", tg[0]) if tg else None
    delta = m.group(1) if m else "delta"
    # the updates after the branch
    tail = [R.key(s) for s in body.get("c", []) if R.strip(s).get("k") in ("CompoundAssign", "Call")]
    if not ("(_coords.x += %s.x)" % delta in tail and "(_coords.y += %s.y)" % delta in tail and "(_p += %s)" % delta in tail):
        raise Unrecognised("advance(): the deltas are not applied to _coords and _p as expected: %s" % tail)
    # slack substitutions: invariant 0 <= cx, W = 1 + w; forward: cx + d = t >= 0; backward: cx + d = -1 - t
    t, w = Poly.atom("t"), Poly.atom("w")
    cx = Poly.atom("cx")
    facts = {"forward (x+d >= 0)": {"W": Poly.const(1) + w, "d": t - cx},
             "backward (x+d < 0)": {"W": Poly.const(1) + w, "d": -Poly.const(1) - t - cx}}
    out = []
    for name, arm, in (("forward (x+d >= 0)", branch_if["then"]), ("backward (x+d < 0)", branch_if["else"])):
        asg = {}
        for a, _ in R.find(arm, lambda x: x.get("k") == "Assign"):
            asg[R.key(a["l"])] = a["r"]
        if set(asg) != {delta + ".x", delta + ".y"}:
            raise Unrecognised("advance(): %s assigns %s" % (name, sorted(asg)))
        sy = Sym(env, facts[name])
        dx, dy = sy.ev(asg[delta + ".x"]), sy.ev(asg[delta + ".y"])
        law = dx + W * dy - Poly.atom("d")
        ok_law = not law.t
        # x stays in [0,W): delta.x is (N % W) - cx with N >= 0
        ok_rng = len(sy.mods) == 1 and (dx + cx - (sy.mods[0] - W * floor_div(sy.mods[0]))) == Poly()
        wit = None
        if not (ok_law and ok_rng):
            for Wv, cxv, dv in itertools.product(range(1, 5), range(0, 4), range(-9, 10)):
                if cxv >= Wv or ((cxv + dv >= 0) != name.startswith("forward")):
                    continue
                vals = {"_coords.x": cxv, "_width": Wv, dname: dv}
                gx, gy = c_eval(asg[delta + ".x"], vals), c_eval(asg[delta + ".y"], vals)
                if gx + Wv * gy != dv or not (0 <= cxv + gx < Wv):
                    wit = {"width": Wv, "x": cxv, "d": dv, "delta": [gx, gy], "index_moves_by": gx + Wv * gy}
                    break
        out.append((name, ok_law and ok_rng, {"delta.x": repr(dx), "delta.y": repr(dy), "delta.x + W*delta.y - d": repr(law), "witness": wit}))
    return out
