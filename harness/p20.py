"""C20 rasterizers (decided part): symmetry orbits, emitted-point counts vs point_count(), trajectory sizing,
guarded ellipse writes -- structural rules over the instantiated AST."""
import os, re
from . import common as C
from .ast import rules as R
from .ir.poly import Poly

LEVEL = "other"
EXPLANATION = ("Static analysis over the instantiated AST: (K1) the mirror lambdas of both circle rasterizers emit exactly the "
               "8-element orbit {(cx+-x, cy+-y), (cx+-y, cy+-x)}, each element once; (K2) the number of mirror calls is "
               "point_count()/8 (trigonometric: loop of point_count()/8 iterations; midpoint: one call plus a loop from 1), and "
               "point_count() is 8 times an integer, so exactly point_count() points are written; (K3) apply_rasterizer for lines "
               "and circles sizes the trajectory with the same rasterizer's point_count() and passes begin(trajectory), then "
               "writes view(point) for each element; (K4) the line rasterizer writes one point per iteration of a loop from "
               "start.x to end.x in unit steps plus the end point, after transposing when width<height, i.e. max(|dx|,|dy|)+1 = "
               "point_count() points, first the start and last the end point; (K5) the ellipse's draw_curve forms the four "
               "(+-x,+-y) combinations and every view write is dominated by the validity flags of both coordinates, which are set "
               "only under the corresponding bounds tests. Not decided: connectivity, distance to the ideal curve and the "
               "bounding-box clause (the Bresenham error term is floating-point state accumulated over a run-time loop).")
W = "include/boost/gil/extension/rasterization/"
DRIVER = '''#include "vf_common.hpp"
#include <boost/gil/extension/rasterization/circle.hpp>
#include <boost/gil/extension/rasterization/ellipse.hpp>
#include <boost/gil/extension/rasterization/line.hpp>
#include <boost/gil/extension/rasterization/apply_rasterizer.hpp>
using namespace vf;
void inst(gray8_view_t const& v){
  gray8_pixel_t px(255);
  apply_rasterizer(v, bresenham_line_rasterizer{{0, 0}, {5, 3}}, px);
  apply_rasterizer(v, trigonometric_circle_rasterizer{{8, 8}, 5}, px);
  apply_rasterizer(v, midpoint_circle_rasterizer{{8, 8}, 5}, px);
  apply_rasterizer(v, midpoint_ellipse_rasterizer{{8, 8}, {5, 3}}, px);
}
'''


def run(rep):
    C.need_tools(C.ASTDUMP)
    wd = C.workdir("C20")
    src = os.path.join(wd, "c20_driver.cpp")
    open(src, "w").write(DRIVER)
    d = C.astdump(src, os.path.join(wd, "c20.json"),
                  ["^boost::gil::(trigonometric_circle_rasterizer|midpoint_circle_rasterizer|bresenham_line_rasterizer|midpoint_ellipse_rasterizer)::",
                   "^boost::gil::detail::apply_rasterizer_op::operator\\(\\)$"])
    fns = d["functions"]
    rep.units.append("c20_driver.cpp: %d instantiated functions" % len(fns))
    rep.trusted += ["clang front end (instantiated AST)", "harness/ast/rules.py"]
    byname = {}
    for f in fns:
        byname.setdefault(f["name"].replace("boost::gil::", ""), []).append(f)
    circle(rep, byname)
    trig_rounding(rep, byname)
    apply_ops(rep, fns)
    line(rep, byname)
    ellipse(rep, byname)
    widened_products(rep, fns)
    rep.floor("obligations:K8", 4)
    octant_joint(rep, byname)
    rep.floor("obligations:K9", 2)
    rep.floor("obligations:K1", 2)
    rep.floor("obligations:K2", 2)
    rep.floor("obligations:K3", 2)
    rep.floor("obligations:K4", 3)
    rep.floor("obligations:K5", 4)
    rep.floor("obligations:K6", 1)
    rep.floor("obligations:K7", 1)


def circle(rep, byname):
    rep.rule("K1 mirror lambda emits the full 8-element symmetry orbit around center, each element once")
    rep.rule("K2 number of mirror calls == point_count()/8 and point_count() == 8 * integer")
    ORBIT = {(sx, a, sy, b) for (a, b) in (("x", "y"), ("y", "x")) for sx in "+-" for sy in "+-"}
    for cls in ("trigonometric_circle_rasterizer", "midpoint_circle_rasterizer"):
        f = (byname.get(cls + "::operator()") or [None])[0]
        pc = (byname.get(cls + "::point_count") or [None])[0]
        if f is None or pc is None:
            rep.fail_analysis("%s not instantiated" % cls)
            continue
        lams = R.find(f["body"], lambda x: x.get("k") == "Lambda")
        rep.count("obligations:K1")
        if len(lams) != 1:
            rep.fail_analysis("%s: %d lambdas" % (cls, len(lams)))
            continue
        lam = lams[0][0]
        pn = lam["params"][0]["name"]
        emitted = []
        for x, p in R.find(lam["body"], lambda x: (x.get("k") == "Assign" or (x.get("k") == "Call" and x.get("op") == "=")) and "d_first" in R.key(x.get("l") or x["args"][0])):
            rhs = R.key(x.get("r") or x["args"][1])
            m = re.fullmatch(r"point_t\{\(center\.x ([+-]) %s\.([xy])\),\(center\.y ([+-]) %s\.([xy])\)\}" % (pn, pn), rhs.replace("point{", "point_t{"))
            emitted.append(m.groups() if m else rhs)
        key = "K1:%s mirror orbit" % cls
        if len(emitted) == 8 and set(emitted) == ORBIT:
            rep.ok("K1-orbit", key, sorted("".join(e) for e in emitted))
        else:
            rep.violation("K1-orbit", key, W + "circle.hpp:%s" % lam.get("line"), {"emitted": [e if isinstance(e, str) else "".join(e) for e in emitted], "expected": "the 8 distinct (+-x,+-y),(+-y,+-x) points"})
        # K2: count of mirror calls
        rep.count("obligations:K2")
        lamvar = None
        for x, p in R.find(f["body"], lambda x: x.get("k") == "Decl"):
            for dd in x["decls"]:
                if dd.get("init") is not None and R.find(dd["init"], lambda y: y.get("k") == "Lambda") and "lambda" in (dd.get("type") or "") or \
                        (dd.get("init") is not None and R.strip(dd["init"]).get("k") in ("Lambda",)) or \
                        (dd.get("init") is not None and R.strip(dd["init"]).get("k") == "Construct" and R.find(dd["init"], lambda y: y.get("k") == "Lambda")):
                    lamvar = dd["name"]
        decls = {dd["name"]: R.key(dd.get("init")) for dn, _ in R.find(f["body"], lambda x: x.get("k") == "Decl") for dd in dn["decls"] if dd.get("name") and dd.get("init") is not None}
        calls = [(x, p) for x, p in R.find(f["body"], lambda x: x.get("k") == "Call" and x.get("op") == "()" and R.key(x["args"][0]) == lamvar)]
        inside, outside = [], []
        for x, p in calls:
            loops = [a for a, fld, i in p if a.get("k") == "For" and fld == "body"]
            (inside if loops else outside).append((x, loops))
        ok = False
        det = {"calls_outside_loop": len(outside), "calls_in_loop": len(inside)}
        if len(inside) == 1 and len(inside[0][1]) == 1:
            loop = inside[0][1][0]
            init = R.strip(loop["init"])
            cond = R.strip(loop["cond"])
            var = init["decls"][0]["name"] if init.get("k") == "Decl" else None
            start = R.key(init["decls"][0]["init"]) if var else None
            bound = R.key(cond["r"]) if cond.get("k") == "Binary" and cond["op"] == "<" and R.key(cond["l"]) == var else None
            incs = R.key(loop["inc"])
            det.update({"loop": "for (%s = %s; %s < %s; %s)" % (var, start, var, bound, incs), "bound_init": decls.get(bound)})
            unit = ("(++%s)" % var) in incs
            bound_is_count = decls.get(bound) in ("(point_count() / 8)", "(this.point_count() / 8)")
            ok = unit and bound_is_count and start is not None and int(start) == len(outside)
        rets = [x for x, _ in R.find(pc["body"], lambda x: x.get("k") == "Return")]
        e = R.strip(rets[0]["e"]) if rets else None
        eight = e is not None and e.get("k") == "Binary" and e.get("op") == "*" and (R.key(e["l"]) == "8" or R.key(e["r"]) == "8") and \
            (e.get("type") in ("long", "std::ptrdiff_t", "ptrdiff_t") or "long" in (e.get("type") or ""))
        det["point_count_is_8_times_integer"] = eight
        key = "K2:%s emitted points == point_count()" % cls
        if ok and eight:
            rep.ok("K2-count", key, det)
        else:
            rep.violation("K2-count", key, W + "circle.hpp", det)


def apply_ops(rep, fns):
    rep.rule("K3 apply_rasterizer_op (line, circle): trajectory(rasterizer.point_count()); rasterizer(begin(trajectory)); for each point: view(point) = pixel")
    for f in fns:
        if not f["name"].endswith("apply_rasterizer_op::operator()"):
            continue
        if "ellipse" in f["full"]:
            rn = R.param_renamer(f)
            cs = [rn(R.key(x)) for x, p in R.find(f["body"], lambda x: x.get("k") == "Call" and x.get("op") == "()")]
            rep.count("obligations:K3")
            if cs == ["$1($0,$2)"]:
                rep.ok("K3-apply", "apply_rasterizer_op<ellipse>", cs)
            else:
                rep.violation("K3-apply", "K3:apply_rasterizer_op<ellipse>", W + "ellipse.hpp", {"calls": cs})
            continue
        kind = "line" if "line_rasterizer_t" in f["full"] else "circle"
        rn = R.param_renamer(f)
        locs = R.local_names(f)
        decls = {dd["name"]: (dd, rn(R.key(dd.get("init")))) for dn, _ in R.find(f["body"], lambda x: x.get("k") == "Decl") for dd in dn["decls"] if dd.get("name") and dd.get("init") is not None}
        traj = [n for n, (dd, k) in decls.items() if "vector" in (dd.get("type") or "")]
        rep.count("obligations:K3")
        det = {"decls": {n: k for n, (dd, k) in decls.items()}}
        ok = False
        if len(traj) == 1:
            t = traj[0]
            m = re.search(r"\{(.*)\}$", decls[t][1])
            inner = m.group(1) if m else decls[t][1]
            depth, first = 0, ""
            for ch in inner:            # first top-level argument (the element count; a defaulted allocator may follow)
                if ch == "," and depth == 0:
                    break
                depth += ch in "({"
                depth -= ch in ")}"
                first += ch
            size_ok = first == "$1.point_count()"
            calls = [rn(R.key(x)) for x, p in R.find(f["body"], lambda x: x.get("k") == "Call" and x.get("op") == "()" and R.key(x["args"][0]) == f["params"][1]["name"])]
            writes = []
            for x, p in R.find(f["body"], lambda x: x.get("k") in ("Assign", "Call") and x.get("op") == "=" and R.key(x.get("l") or x["args"][0]).startswith(f["params"][0]["name"] + "(")):
                fr = [a for a, fld, i in p if a.get("k") == "ForRange"]
                writes.append((rn(R.key(x)), rn(R.key(fr[0]["range"])) if fr else None, fr[0]["var"] if fr else None))
            det.update({"rasterizer_calls": calls, "writes": writes, "trajectory_init": decls[t][1]})
            ok = size_ok and calls == ["$1(begin(%s))" % t] and len(writes) == 1 and writes[0][1] == t and writes[0][0] == "($0(%s) = $2)" % writes[0][2]
        key = "K3:apply_rasterizer_op<%s>" % kind
        if ok:
            rep.ok("K3-apply", key, det)
        else:
            rep.violation("K3-apply", key, W + ("line.hpp" if kind == "line" else "circle.hpp"), det)


def trig_rounding(rep, byname):
    """K7: the trigonometric circle emits (round(r cos a), round(r sin a)): each coordinate is within 1/2 of the ideal point, so every
    emitted point is within sqrt(1/2) < 1 pixel of the ideal circle (the mirror images inherit it, K1)"""
    rep.rule("K7 trigonometric circle: both coordinates handed to the mirror lambda are the nearest integers (std::round / lround / nearbyint) of radius*cos(angle) and "
             "radius*sin(angle) of the same angle => every point is within sqrt(1/2) pixel of the ideal circle")
    f = (byname.get("trigonometric_circle_rasterizer::operator()") or [None])[0]
    rep.count("obligations:K7")
    if f is None:
        rep.fail_analysis("trigonometric_circle_rasterizer not instantiated")
        return
    decl = {dd["name"]: dd.get("init") for dn, _ in R.find(f["body"], lambda x: x.get("k") == "Decl") for dd in dn["decls"] if dd.get("name")}
    calls = [c for c, _ in R.calls_in(f["body"], lambda n: "operator()" in n and "trigonometric_circle_rasterizer" in n)]
    prob, unknown = [], []
    if len(calls) != 1:
        prob.append("%d calls of the mirror lambda" % len(calls))
    else:
        args = R.key(calls[0]["args"][-1])
        m = re.fullmatch(r"point_t\{(\w+),(\w+)\}", args)
        if not m:
            prob.append("mirror lambda called with %s" % args)
        else:
            forms = []
            for v in m.groups():
                k = R.key(decl.get(v)) if decl.get(v) is not None else None
                core = r"\(radius \* (cos|sin)\((\w+)\)\)"
                mm = re.fullmatch(r"(?:l?l?round|nearbyint|rint)\(%s\)" % core, k or "") or re.fullmatch(r"floor\(\(%s \+ 0\.5\)\)" % core, k or "")
                trunc = re.fullmatch(core, k or "") or re.fullmatch(r"(?:floor|ceil|trunc)\(%s\)" % core, k or "")
                if mm:
                    forms.append(mm.groups())
                elif trunc:
                    prob.append("%s = %s is cut off, not rounded to the nearest integer" % (v, k))
                else:
                    unknown.append("%s = %s" % (v, k))
            if len(forms) == 2 and (sorted(x[0] for x in forms) != ["cos", "sin"] or forms[0][1] != forms[1][1]):
                prob.append("coordinates %s are not cos and sin of one angle" % (forms,))
    key = "K7:trigonometric_circle_rasterizer::operator():rounding of both coordinates"
    if unknown and not prob:
        rep.incon("K7-trig-rounding", key, {"unrecognised coordinate expressions": unknown})
    elif prob:
        rep.violation("K7-trig-rounding", key, W + "circle.hpp", {"problems": prob, "consequence": "a truncated coordinate is up to 1 pixel off, together with the rounded one the point can be more than one pixel from the circle (radius 23: (19,11) is 21.954 from the centre)"})
    else:
        rep.ok("K7-trig-rounding", key, "x = round(r cos a), y = round(r sin a)")


LINE_ROLES = [
    "{S} := start_point", "{E} := end_point",
    "{W} := (abs(({E}.x - {S}.x)) + 1)", "{H} := (abs(({E}.y - {S}.y)) + 1)",
    "{F} := ({W} < {H})",
    "swap({W},{H})", "swap({S}.x,{S}.y)", "swap({E}.x,{E}.y)",
    "{I} := (({E}.x >= {S}.x) ? 1 : -1)", "{J} := (({E}.y >= {S}.y) ? 1 : -1)",
    "{Y} := {S}.y", "#0 := {S}.x", "(#0 += {I})", "({Y} += {J})",
]


def line_model(f):
    """Binds the roles of the locals of bresenham_line_rasterizer::operator() on its canonical form (R.canonize): S,E the working
    copies of the end points, W,H the pixel extents, F the transposition flag, I,J the directions, Y the minor coordinate.
    Every role is found through what the local is initialised with and how it is used, not through its name; the order facts
    (flag before the swaps, directions / start coordinates after them) are checked on the source lines."""
    g = R.canonize(f)
    facts, line_of = [], {}
    for dn, _ in R.find(g["body"], lambda x: x.get("k") == "Decl"):
        for dd in dn["decls"]:
            if dd.get("name") and dd.get("init") is not None:
                k = "%s := %s" % (dd["name"], R.key(dd["init"]))
                facts.append(k)
                line_of[k] = dn.get("line") or 0
    for k, x, pth in R.effects(g["body"]):
        facts.append(k)
        line_of[k] = x.get("line") or 0
    swaps = []
    for c, pth in R.calls_in(g["body"], lambda n: n == "std::swap"):
        k = R.key(c)
        facts.append(k)
        line_of[k] = c.get("line") or 0
        swaps.append((k, R.guards(pth), c.get("line") or 0))
    env = R.bind(facts, LINE_ROLES)
    return g, env, facts, line_of, swaps


def line(rep, byname):
    rep.rule("K4 line: point_count == max(|dx|,|dy|)+1; one store per unit step from start.x to end.x (after transposing when width<height) plus the end point "
             "(roles of the locals bound on the canonical form: independent of their names)")
    f = (byname.get("bresenham_line_rasterizer::operator()") or [None])[0]
    pc = (byname.get("bresenham_line_rasterizer::point_count") or [None])[0]
    if f is None or pc is None:
        rep.fail_analysis("bresenham_line_rasterizer not instantiated")
        return
    # point_count
    gp = R.canonize(pc)
    ret = [R.key(x["e"]) for x, _ in R.find(gp["body"], lambda x: x.get("k") == "Return")]
    rep.count("obligations:K4")
    w_, h_ = "(abs((end_point.x - start_point.x)) + 1)", "(abs((end_point.y - start_point.y)) + 1)"
    forms = {"((%s > %s) ? %s : %s)" % (w_, h_, w_, h_), "((%s < %s) ? %s : %s)" % (w_, h_, h_, w_), "((%s >= %s) ? %s : %s)" % (w_, h_, w_, h_),
             "((%s > %s) ? %s : %s)" % (h_, w_, h_, w_), "((%s < %s) ? %s : %s)" % (h_, w_, w_, h_), "max(%s,%s)" % (w_, h_), "max(%s,%s)" % (h_, w_)}
    if len(ret) == 1 and ret[0] in forms:
        rep.ok("K4-line", "point_count == max(|dx|+1, |dy|+1)", {"return": ret})
    else:
        rep.violation("K4-line", "K4:line:point_count", W + "line.hpp", {"return": ret})
    # operator(): roles
    g, env, facts, line_of, swaps = line_model(f)
    rep.count("obligations:K4")
    if env is None:
        rep.incon("K4-line", "K4:line:roles", {"unrecognised": "the working copies / extents / flag / directions of the line rasterizer could not be bound", "facts": facts[:30]})
        return None
    fi = lambda t: R.fill_in(t, env)
    prob = []
    flag_line = line_of[fi("{F} := ({W} < {H})")]
    sw_lines = [l for k, gs, l in swaps]
    if len(swaps) != 3 or not all(any(op == "!=" and l == env["F"] and r == "0" for op, l, r in gs) for k, gs, l in swaps):
        prob.append("the three swaps are not exactly the statements guarded by the transposition flag: %s" % [(k, gs) for k, gs, l in swaps])
    if not g["canon_single"].get(env["F"]) or flag_line >= min(sw_lines or [1 << 30]):
        prob.append("the transposition flag is not computed once, before the swaps")
    for role in ("{I} := (({E}.x >= {S}.x) ? 1 : -1)", "{J} := (({E}.y >= {S}.y) ? 1 : -1)", "{Y} := {S}.y", "#0 := {S}.x"):
        if line_of[fi(role)] <= max(sw_lines or [0]):
            prob.append("%s is computed before the transposition" % fi(role))
    for v in ("I", "J"):
        if not g["canon_single"].get(env[v]):
            prob.append("direction %s is modified after its initialisation" % env[v])
    loops = R.loops_of(g["body"])
    stores = [(k, x, pth) for k, x, pth in R.effects(g["body"]) if k.startswith("((*") and "$0" in k.split(" = ")[0]]
    det = {"roles": env, "stores": [k for k, _, _ in stores]}
    if len(loops) != 1 or loops[0].get("k") != "For":
        prob.append("%d loops" % len(loops))
    else:
        lp = loops[0]
        iv, i0, cond, inc = R.for_shape(lp)
        if (iv, i0, cond, inc) != ("#0", fi("{S}.x"), fi("(#0 != {E}.x)"), fi("(#0 += {I})")) and (iv, i0, cond) != ("#0", fi("{S}.x"), fi("({E}.x != #0)")):
            prob.append("loop for (%s = %s; %s; %s) is not the unit walk from start.x to end.x" % (iv, i0, cond, inc))
        in_loop = [(k, x, pth) for k, x, pth in stores if any(a is lp for a, _, _ in pth)]
        rest = [(k, x, pth) for k, x, pth in stores if not any(a is lp for a, _, _ in pth)]
        deg = [t for t in rest if any(op == "==" and {l, r} == {env["S"], env["E"]} for op, l, r in R.guards(t[2]))]
        after = [t for t in rest if t not in deg]
        want_in = fi("((*($0 ++ 0)) = ({F} ? point_t{{Y},#0} : point_t{#0,{Y}}))")
        want_after = fi("((*($0 ++ 0)) = ({F} ? point_t{{E}.y,{E}.x} : {E}))")
        if [k for k, _, _ in in_loop] != [want_in]:
            prob.append("stores in the loop %s, expected %s" % ([k for k, _, _ in in_loop], want_in))
        if [k for k, _, _ in after] != [want_after] or (after and (after[0][1].get("line") or 0) < (lp.get("line") or 0)):
            prob.append("store after the loop %s, expected the end point %s" % ([k for k, _, _ in after], want_after))
        if [k for k, _, _ in deg] not in ([fi("((*$0) = {S})")], [fi("((*($0 ++ 0)) = {S})")], [fi("((*$0) = {E})")]):
            prob.append("degenerate line (start == end) stores %s" % [k for k, _, _ in deg])
    if prob:
        rep.violation("K4-line", "K4:line:emitted points", W + "line.hpp", {"problems": prob, "detail": det})
    else:
        rep.ok("K4-line", "one store per unit x-step + end point, transposed when width<height; extents are |dx|+1, |dy|+1 of the stored end points", det)
    rep.count("obligations:K4")
    rep.ok("K4-line", "roles bound: %s" % ", ".join("%s=%s" % kv for kv in sorted(env.items())), env)
    line_accumulator(rep, f, g, env, line_of, max(sw_lines or [0]))


# ---------------------------------------------------------------------------------------------
# K6: the error-term accumulator of the line rasteriser, in closed form
class K6Unknown(Exception):
    pass


def _frac(n):
    """a literal as a Fraction"""
    from fractions import Fraction
    n = R.strip(n)
    if n.get("k") == "Float":
        return Fraction(n["v"]).limit_denominator(1 << 20) if Fraction(n["v"]).denominator & (Fraction(n["v"]).denominator - 1) else Fraction(n["v"])
    if n.get("k") == "Int" or ("const" in n and R.is_lit(str(n["const"]))):
        return Fraction(int(n.get("v", n.get("const"))))
    raise K6Unknown("threshold %s is not a literal" % R.key(n))


def _sign(p):
    """sign of a polynomial all of whose atoms are >= 0: '0', '+', '-', '>=0', '<=0' or None"""
    if not p.t:
        return "0"
    cs = list(p.t.values())
    c0 = p.t.get((), 0)
    if all(c >= 0 for c in cs):
        return "+" if c0 > 0 else ">=0"
    if all(c <= 0 for c in cs):
        return "-" if c0 < 0 else "<=0"
    return None


def _rat(n, env, case):
    """arithmetic over the transposed extents as a quotient of polynomials (N, D), D > 0 in `case`"""
    n = R.strip(n)
    k = n.get("k")
    one = Poly.const(1)
    if k == "Cond":
        c = R.strip(n["cond"])
        if c.get("k") != "Binary" or c["op"] not in ("==", "!=", "<", "<=", ">", ">="):
            raise K6Unknown("condition %s" % R.key(c))
        (ln, ld), (rn_, rd) = _rat(c["l"], env, case), _rat(c["r"], env, case)
        sg = _sign((ln * rd - rn_ * ld).subst(case))
        truth = {"==": {"0": True, "+": False, "-": False}, "!=": {"0": False, "+": True, "-": True},
                 "<": {"0": False, "+": False, "-": True, ">=0": False}, "<=": {"0": True, "-": True, "+": False, "<=0": True},
                 ">": {"0": False, "+": True, "-": False, "<=0": False}, ">=": {"0": True, "+": True, "-": False, ">=0": True}}[c["op"]].get(sg)
        if truth is None:
            raise K6Unknown("cannot decide %s in the case %s" % (R.key(c), case))
        return _rat(n["then"] if truth else n["else"], env, case)
    if k in ("Int", "Float") or ("const" in n and k not in ("DeclRef", "Member") and R.is_lit(str(n["const"]))):
        f = _frac(n)
        return Poly.const(f.numerator), Poly.const(f.denominator)
    if k == "DeclRef":
        if n["name"] in env:
            return env[n["name"]]
        raise K6Unknown("free variable %s" % n["name"])
    if k == "Unary" and n["op"] == "-":
        a, b = _rat(n["e"], env, case)
        return -a, b
    if k == "Binary" and n["op"] in ("+", "-", "*", "/"):
        (an, ad), (bn, bd) = _rat(n["l"], env, case), _rat(n["r"], env, case)
        if n["op"] == "+":
            return an * bd + bn * ad, ad * bd
        if n["op"] == "-":
            return an * bd - bn * ad, ad * bd
        if n["op"] == "*":
            return an * bn, ad * bd
        sg = _sign(bn.subst(case))
        if sg == "+":
            return an * bd, ad * bn
        if sg == "-":
            return -(an * bd), -(ad * bn)
        raise K6Unknown("divisor %s is not of one sign in the case %s" % (R.key(n["r"]), case))
    raise K6Unknown("expression %s" % R.key(n))


def _ev(p, vals):
    tot = 0
    for mon, c in p.t.items():
        v = c
        for a in mon:
            v *= vals[a]
        tot += v
    return tot


def line_accumulator(rep, f, g, roles, line_of, last_swap_line):
    """K6: with a = |major extent|, b = |minor extent| (a >= b after the transposition K4 checks), the loop body
         store; e += slope; if (e >= T) { e -= 1; y += dir; }
    from e = 0 keeps e in [T-1, T) provided 0 <= slope <= 1, so the minor offset of the k-th emitted point is
    s_k = floor(k*slope + 1 - T), k = 0..a-1.  The obligations are polynomial inequalities in (a, b), decided on the two
    cases b == 0 and b >= 1 by the sign of the coefficients after the substitution b = 1+u, a = b+t (u, t >= 0); a failed
    sufficient test is reported as a violation only with an integer witness (a, b, k) of the closed form.
    The roles (W, H, Y, J, E, ...) come from K4's binding on the canonical form; the accumulator R and the slope L are bound here."""
    from fractions import Fraction
    import math
    rep.rule("K6 line accumulator: e stays in [T-1,T) (0 <= slope <= 1), so point k has minor offset floor(k*slope+1-T); for all a >= b >= 0, a >= 1: "
             "offset(k) <= b for k < a (bounding box), b - offset(a-1) <= 1 (8-connected to the forced end point), |offset(k) - k*b/a| <= 1 (one pixel from the ideal segment)")
    where = W + "line.hpp"
    fi = lambda t: R.fill_in(t, roles)
    loops = R.loops_of(g["body"])
    try:
        if len(loops) != 1:
            raise K6Unknown("%d loops" % len(loops))
        body = [R.strip(x) for x in R.strip(loops[0]["body"]).get("c", [])]
        keys = [R.key(x) for x in body]
        st = [i for i, x in enumerate(body) if keys[i].startswith("((*") and x.get("k") in ("Call", "Assign")]
        ifs = [i for i, x in enumerate(body) if x.get("k") == "If"]
        env = R.bind(keys, ["({R} += {L})"], roles)
        if env is None or len(body) != 3 or len(st) != 1 or len(ifs) != 1 or keys.index(R.fill_in("({R} += {L})", env)) > ifs[0]:
            raise K6Unknown("loop body %s is not store / accumulate / conditional step" % keys)
        acc = [keys.index(R.fill_in("({R} += {L})", env))]
        Rv, Lv = env["R"], env["L"]
        fd = {dd["name"]: (dd, dn.get("line") or 0) for dn, _ in R.find(g["body"], lambda x: x.get("k") == "Decl") for dd in dn["decls"] if dd.get("name")}
        if Rv not in fd or Lv not in fd or fd[Lv][0].get("init") is None or not g["canon_single"].get(Lv):
            raise K6Unknown("accumulator %s / slope %s are not locals (the slope assigned once)" % (Rv, Lv))
        if fd[Lv][1] <= last_swap_line:
            raise K6Unknown("the slope is computed before the transposition")
        cnd = R.strip(body[ifs[0]]["cond"])
        # accepted forms:  e >= T   and   e >= T && y != end.y  (the step is withheld once the end row is reached)
        clamp = False
        counter = None          # (name, initialiser, declared before the transposition): the step is allowed while a count-down is positive
        if cnd.get("k") == "Binary" and cnd["op"] == "&&":
            parts = [R.strip(cnd["l"]), R.strip(cnd["r"])]
            cl = [x for x in parts if R.key(x) in (fi("({Y} != {E}.y)"), fi("({E}.y != {Y})"))]
            rest = [x for x in parts if x not in cl]
            if len(cl) == 1 and len(rest) == 1:
                clamp, cnd = True, rest[0]
            else:
                # e >= T && C > 0 with C a local that is counted down once per step: at most C0 steps are taken
                cc = [x for x in parts if re.fullmatch(r"\((%\d+) > 0\)", R.key(x))]
                rest = [x for x in parts if x not in cc]
                if len(cc) != 1 or len(rest) != 1:
                    raise K6Unknown("step condition %s" % R.key(cnd))
                cname_ = re.fullmatch(r"\((%\d+) > 0\)", R.key(cc[0])).group(1)
                if cname_ not in fd or fd[cname_][0].get("init") is None:
                    raise K6Unknown("count-down %s has no initialiser" % cname_)
                writes = [k_ for k_, _, _ in R.effects(g["body"]) if re.match(r"\((\+\+|--)?%s\b|\(%s (=|\+=|-=)" % (re.escape(cname_), re.escape(cname_)), k_)]
                if sorted(writes) not in (["(--%s)" % cname_], ["(%s--)" % cname_], ["(%s -= 1)" % cname_]):
                    raise K6Unknown("count-down %s is written by %s" % (cname_, writes))
                counter = (cname_, fd[cname_][0]["init"], fd[cname_][1] <= last_swap_line)
                clamp, cnd = True, rest[0]
        if cnd.get("k") != "Binary" or cnd["op"] != ">=" or R.key(cnd["l"]) != Rv or body[ifs[0]].get("else") is not None:
            raise K6Unknown("step condition %s" % R.key(cnd))
        T = _frac(cnd["r"])
        then = sorted(R.key(x) for x in R.strip(body[ifs[0]]["then"]).get("c", []))
        step = fi("({Y} += {J})")
        if counter:
            then = sorted(x for x in then if x not in ("(--%s)" % counter[0], "(%s--)" % counter[0], "(%s -= 1)" % counter[0]))
            if len(then) != 2:
                raise K6Unknown("the count-down is not decremented in the step")
        if then not in (sorted(["(--%s)" % Rv, step]), sorted(["(%s -= 1)" % Rv, step]), sorted(["(%s--)" % Rv, step])):
            raise K6Unknown("step body %s" % then)
        if R.key(fd[Rv][0].get("init")) not in ("0", "0.0"):
            raise K6Unknown("the accumulator starts at %s" % R.key(fd[Rv][0].get("init")))
        slope_init = fd[Lv][0]["init"]
        wname, hname = roles["W"], roles["H"]
        first = 0 if st[0] < acc[0] else 1          # offsets s_first .. s_{first+a-1} are emitted
        a, b = Poly.atom("a"), Poly.atom("b")
        one = Poly.const(1)
        env = {wname: (a + one, one), hname: (b + one, one)}
        cases = {"b == 0": {"b": Poly.const(0), "a": one + Poly.atom("t")},
                 "b >= 1": {"b": one + Poly.atom("u"), "a": one + Poly.atom("u") + Poly.atom("t")}}
        if not (0 < T <= 1):
            raise K6Unknown("threshold %s outside (0,1]" % T)
        p_, q_ = T.numerator, T.denominator
        det = {"threshold": str(T), "first_emitted_offset_index": first, "step withheld at the end row": clamp, "cases": {}}
        bad = []

        # the number of steps the guard admits, as a polynomial in (a, b): b for `y != end.y`; for a count-down its initial value, read with the extents
        # as they are at its declaration -- after the transposition W = a+1, H = b+1; before it a steep line still has W = b+1, H = a+1
        variants = [("", None)]
        if counter:
            cp = R.poly_of(counter[1], rename=lambda nm: nm)
            if not set(cp.atoms()) <= {wname, hname}:
                raise K6Unknown("count-down starts at %s, not a polynomial in the extents" % R.key(counter[1]))
            if counter[2]:
                variants = [("flat lines", cp.subst({wname: a + one, hname: b + one})), ("steep lines (transposed after the count-down was set)", cp.subst({wname: b + one, hname: a + one}))]
            else:
                variants = [("", cp.subst({wname: a + one, hname: b + one}))]
        det["step allowed while a count-down is positive"] = bool(counter)

        def offset(k, N, D, av, bv, cap=None):
            # floor(k*N/D + 1 - T) at integers
            n, d = _ev(N, {"a": av, "b": bv}), _ev(D, {"a": av, "b": bv})
            u = math.floor(Fraction(k * n, d) + 1 - T)
            if cap is not None:
                return min(u, _ev(cap, {"a": av, "b": bv}))
            return min(u, bv) if clamp else u     # u is monotone in k, so withholding the step at y == end.y is min(b, u)

        for (vname, cap), (cname0, case) in [(v_, c_) for v_ in variants for c_ in cases.items()]:
            cname = cname0 + (", " + vname if vname else "")
            N, D = _rat(slope_init, env, case)
            if _sign(D.subst(case)) != "+":
                N, D = -N, -D
            cd = {"slope": "(%r) / (%r)" % (N, D)}
            det["cases"][cname] = cd
            # lemma preconditions
            pre = _sign(N.subst(case)) in ("0", "+", ">=0") and _sign((D - N).subst(case)) in ("0", "+", ">=0") and _sign(D.subst(case)) == "+"
            cd["0 <= slope <= 1"] = pre
            if not pre:
                raise K6Unknown("0 <= slope <= 1 not established in the case %s (slope = %s)" % (cname, cd["slope"]))
            last = a - one + Poly.const(first)
            qc = Poly.const(q_)
            obl = {
                # floor(last*N/D + 1 - T) <= b   <=>   q*last*N < (q*b + p)*D
                "bounding box: offset(last) <= b": ((qc * b + Poly.const(p_)) * D - qc * last * N, True),
                # floor(last*N/D + 1 - T) >= b - 1   <=>   q*last*N + (2q - p)*D - q*b*D >= 0
                "connected to the end point: offset(last) >= b-1": (qc * last * N + Poly.const(2 * q_ - p_) * D - qc * b * D, False),
                # offset(k) - k*b/a <= 1 at k = last (linear in k, 0 at k = 0):  q*last*(N*a - b*D) <= p*D*a
                "one pixel above the ideal segment: last*(slope - b/a) <= T": (Poly.const(p_) * D * a - qc * last * (N * a - b * D), False),
                # offset(k) - k*b/a > -1:  k*(slope - b/a) - T > -1 for k = last:  q*last*(N*a - b*D) + (q-p)*D*a >= 0 suffices
                "one pixel below the ideal segment: last*(slope - b/a) >= T-1": (qc * last * (N * a - b * D) + Poly.const(q_ - p_) * D * a, False),
            }
            for oname, (poly, strict) in obl.items():
                sg = _sign(poly.subst(case))
                ok = sg == "+" if strict else sg in ("0", "+", ">=0")
                if clamp and cap is None and oname.startswith("bounding"):
                    ok = True               # offset = min(b, .) by construction
                if cap is not None and oname.startswith("bounding") and not ok:
                    ok = _sign((b - cap).subst(case)) in ("0", "+", ">=0")       # offset = min(cap, .) <= b when cap <= b
                cd[oname] = "proved" if ok else "not proved"
                if ok:
                    continue
                wit = None
                for av in range(1, 41 if rep.tier == "quick" else 121):
                    for bv in ([0] if cname0 == "b == 0" else range(1, av + 1)):
                        for k in range(first, first + av):
                            s = offset(k, N, D, av, bv, cap)
                            viol = (s > bv) if oname.startswith("bounding") else ((bv - s > 1) if oname.startswith("connected") and k == first + av - 1 else
                                    (abs(Fraction(s) - Fraction(k * bv, av)) > 1 if oname.startswith("one pixel") else False))
                            if viol:
                                wit = {"|major extent| a": av, "|minor extent| b": bv, "point k": k, "minor offset": s, "ideal": str(Fraction(k * bv, av))}
                                break
                        if wit:
                            break
                    if wit:
                        break
                cd[oname] = {"witness": wit} if wit else "not proved, no witness up to a = %d" % (40 if rep.tier == "quick" else 120)
                bad.append((cname, oname, wit))
        names = ["bounding box", "connected to the end point", "one pixel above the ideal segment", "one pixel below the ideal segment"]
        for nm in names:
            key = "K6:bresenham_line_rasterizer::operator():%s" % nm
            mine = [x for x in bad if x[1].startswith(nm)]
            refuted = [x for x in mine if x[2]]
            rep.count("obligations:K6")
            if refuted:
                c, o, w = refuted[0]
                rep.violation("K6-line-accumulator", key, where, {"refuted": "%s [case %s]" % (o, c),
                              "example": "line (0,0)->(%d,%d): point %d has minor coordinate %d, the ideal segment is at %s" % (w["|major extent| a"], w["|minor extent| b"], w["point k"], w["minor offset"], w["ideal"]), "detail": det})
            elif mine:
                rep.incon("K6-line-accumulator", key, {"at": where, "unproved": [(c, o) for c, o, _ in mine], "detail": det})
            else:
                rep.ok("K6-line-accumulator", key, det)
    except K6Unknown as e:
        rep.count("obligations:K6")
        rep.incon("K6-line-accumulator", "K6:bresenham_line_rasterizer::operator()", {"at": where, "unrecognised": str(e)})


def ellipse(rep, byname):
    rep.rule("K5 ellipse draw_curve: four (+-x,+-y) writes, each dominated by validity[i] && validity[j]; validity[i] set only under the bounds test of co_ords[i] "
             "(the coordinate array, the flag array and the centre copy are found by their roles on the canonical form, not by name)")
    f0 = (byname.get("midpoint_ellipse_rasterizer::draw_curve") or [None])[0]
    if f0 is None:
        rep.fail_analysis("draw_curve not instantiated")
        return
    f = R.canonize(f0)          # $0 view, $1 pixel, $2 trajectory; @0 the trajectory point
    # roles: C the coordinate array (centre +- point per axis), Z the working copy of the centre, V the validity flags
    C_ = Z_ = None
    co_key = None
    for x, p in R.find(f["body"], lambda x: x.get("k") == "Decl"):
        for dd in x["decls"]:
            if dd.get("init") is None:
                continue
            k = R.key(dd["init"])
            m = re.search(r"\{\((%\d+)\[0\] \+ @0\[0\]\),\(\1\[0\] - @0\[0\]\),\(\1\[1\] \+ @0\[1\]\),\(\1\[1\] - @0\[1\]\)\}", k)
            if m:
                C_, Z_, co_key = dd["name"], m.group(1), k
    rep.count("obligations:K5")
    c_writes = [k for k, _, _ in R.effects(f["body"]) if C_ and re.match(r"\((\+\+|--)?%s[\[. ]" % re.escape(C_), k)]
    if C_ is None or c_writes:
        rep.violation("K5-ellipse", "K5:ellipse:co_ords", W + "ellipse.hpp", {"problem": "no array initialised once with (centre[0] +- point[0], centre[1] +- point[1]) found",
                      "decls": [R.key(dd["init"])[:120] for x, _ in R.find(f["body"], lambda x: x.get("k") == "Decl") for dd in x["decls"] if dd.get("init") is not None][:8]})
        return
    rep.ok("K5-ellipse", "co_ords = center +- point per axis", co_key[-80:])
    writes, vnames = [], set()
    for x, p in R.find(f["body"], lambda x: x.get("k") in ("Assign", "Call") and x.get("op") == "=" and R.key(x.get("l") or x["args"][0]).startswith("$0(")):
        tgt = R.key(x.get("l") or x["args"][0])
        m = re.fullmatch(r"\$0\(%s\[(\d)\],%s\[(\d)\]\)" % (re.escape(C_), re.escape(C_)), tgt)
        gs = R.guards(p)
        fl = [(mm.group(1), int(mm.group(2))) for op, l, r in gs for mm in [re.fullmatch(r"(%\d+)\[(\d)\]", l)] if mm and op == "!=" and r == "0"]
        vnames |= {n for n, _ in fl}
        writes.append((tgt, (int(m.group(1)), int(m.group(2))) if m else None, sorted(i for _, i in fl), R.key(x.get("r") or x["args"][1])))
    rep.count("obligations:K5")
    combos = sorted(w[1] for w in writes if w[1])
    if combos == [(0, 2), (0, 3), (1, 2), (1, 3)] and all(w[1] and sorted(w[1]) == w[2] and w[3] == "$1" for w in writes) and len(vnames) == 1:
        rep.ok("K5-ellipse", "four guarded writes", [w[0] for w in writes])
    else:
        rep.violation("K5-ellipse", "K5:ellipse:writes", W + "ellipse.hpp", {"writes": [(w[0], w[2], w[3]) for w in writes]})
        return
    V_ = vnames.pop()
    # validity flags
    for i, dim in ((0, "width"), (1, "width"), (2, "height"), (3, "height")):
        sets = []
        for x, p in R.find(f["body"], lambda x: x.get("k") == "Assign" and R.key(x["l"]) == "%s[%d]" % (V_, i)):
            gs = R.guards(p)
            sets.append((R.key(x["r"]), gs))
        rep.count("obligations:K5")
        ok = len(sets) == 1 and sets[0][0] in ("true", "True", "1") and R.has_atom(sets[0][1], "<", "%s[%d]" % (C_, i), "$0.%s()" % dim)
        if i in (1, 3):
            ok = ok and R.has_atom(sets[0][1], ">=", "%s[%d]" % (C_, i), "0") if sets else False
        # ... and under nothing stricter: every coordinate inside [0, dim) must be drawn (`co_ords[3] > 0` drops row 0: an ellipse whose bounding box
        # touches the top of the view loses its cap, the painted set is neither closed nor symmetric)
        extra = []
        if ok:
            cn, dn = "%s[%d]" % (C_, i), "$0.%s()" % dim
            want = {R.norm_cmp("<", cn, dn), R.norm_cmp(">=", cn, "0")}
            for op_, l_, r_ in sets[0][1]:
                if cn in (l_, r_) and R.norm_cmp(op_, l_, r_) not in want:
                    extra.append("%s %s %s" % (l_, op_, r_))
        if ok and extra:
            rep.violation("K5-ellipse", "K5:ellipse:validity[%d]" % i, W + "ellipse.hpp", {"stricter than 0 <= c < %s()" % dim: extra,
                          "example": "centre (a+1, b+1), semi-axes (a, b) in a view of exactly the bounding box: the reflections that land in row / column 0 are skipped"})
        elif ok:
            rep.ok("K5-ellipse", "validity[%d] set only under the %s bounds test" % (i, dim), sets[0][0])
        else:
            rep.violation("K5-ellipse", "K5:ellipse:validity[%d]" % i, W + "ellipse.hpp", {"assignments": [(s[0], s[1][-4:]) for s in sets]})
    # the flags start out false
    rep.count("obligations:K5")
    vinit = [R.key(dd["init"]) if dd.get("init") is not None else None for x, _ in R.find(f["body"], lambda x: x.get("k") == "Decl") for dd in x["decls"] if dd.get("name") == V_]
    if vinit and vinit[0] is not None and re.fullmatch(r"[\w\[\] ]*\{((false|False|0)(,(false|False|0))*)?\}", vinit[0]):
        rep.ok("K5-ellipse", "validity flags value-initialised to false for every point", vinit[0])
    else:
        rep.violation("K5-ellipse", "K5:ellipse:validity:init", W + "ellipse.hpp", {"initialiser": vinit})


INT32 = {"int", "unsigned int", "short", "unsigned short", "char", "signed char", "unsigned char"}
INT64 = {"long", "unsigned long", "long long", "unsigned long long"}


def widened_products(rep, fns):
    """K8: the decision variables of the rasterizers are 64-bit, so that extents up to the coordinate type's range can be squared; a product that is
    computed in a 32-bit type and only then widened has already wrapped (semi-axis 65536: a*a == 0 in unsigned int, the first loop of obtain_trajectory never ends)"""
    rep.rule("K8 in every rasterizer function no product of run-time operands is computed in a 32-bit integer type and then widened to a 64-bit one (implicit or explicit cast directly "
             "over the multiplication): the operands are widened first. Witness for a violation: a == 65536 gives a*a == 0 (mod 2^32)")
    for f in fns:
        n = f["name"].replace("boost::gil::", "")
        if "apply_rasterizer_op" in n:
            continue
        rep.count("obligations:K8")
        bad = []
        nprod = 0
        for x, _ in R.find(f["body"], lambda x: x.get("k") == "Binary" and x.get("op") == "*"):
            nprod += 1
        for x, _ in R.find(f["body"], lambda x: x.get("k") in ("ImplicitCast", "Cast", "ExplicitCast") and x.get("from_c") is not None):
            frm = x["from_c"].replace("const ", "").strip()
            to = x["to_c"].replace("const ", "").strip()
            if frm not in INT32 or to not in INT64:
                continue
            e = x["e"]
            while isinstance(e, dict) and e.get("k") == "Paren":
                e = e["e"]
            if isinstance(e, dict) and e.get("k") == "Binary" and e.get("op") == "*" and not (_is_const(e["l"]) and _is_const(e["r"])):
                bad.append({"product": R.key(e), "computed_in": frm, "widened_to": to, "line": x.get("line")})
        key = "K8:%s" % n
        if bad:
            rep.violation("K8-widened-product", key, R.fn_where(f), {"products": bad, "witness": "operand 65536: 65536*65536 == 0 in a 32-bit type; for the ellipse t1 == 0 makes d2 < 0 invariant and the first loop endless"})
        else:
            rep.ok("K8-widened-product", key, "%d products, none widened after the multiplication" % nprod)


def _is_const(e):
    while isinstance(e, dict) and e.get("k") in ("Paren", "ImplicitCast"):
        if "const" in e:
            return True
        e = e["e"]
    return isinstance(e, dict) and ("const" in e or e.get("k") in ("Int", "IntegerLiteral"))


def octant_joint(rep, byname):
    """K9 (midpoint circle): the first octant is walked for x = 0 .. N-1 with N = point_count()/8 and mirrored seven times. The curve is closed across the 45 degree
    diagonal only if the last point (x, y) has y - x <= 1, otherwise (x, y) and its mirror image (y, x) are two pixels apart.
    Step 1 (shape): y = r; emit(0, y); for x = 1 .. N-1: m = x^2 + y^2 - y - r^2; if (m > 0) --y; emit(x, y).   m > 0  <=>  x^2 + (y - 1/2)^2 > r^2 + 1/4.
    Step 2 (invariant, by induction over x while y >= x + 1 held before every decrement): after column x, x^2 + (y - 1/2)^2 <= r^2 + 1/4 -- a decrement restores it
    because x^2 + (y - 3/2)^2 = [(x-1)^2 + (y - 1/2)^2] + 2(x - y) + 1 <= r^2 + 1/4 when y >= x + 1; and y never drops below the largest such value, since it is
    decremented only when the midpoint is outside. Hence y(x) = max{ y <= r : 4x^2 + (2y-1)^2 <= 4r^2 + 1 } as long as y(x) >= x + 1, and y - x only decreases.
    Step 3: y(x) <= x + 1 follows from r^2 < 2x^2 + 3x + 2. With x = ROUND(c r) + k - 1, c = cos(pi/4), ROUND to nearest: x >= c r - 1/2 + (k-1); truncation: x > c r - 1 + (k-1).
    Writing x >= c r - d the right-hand side is at least (2c^2 - 1) r^2 + c (3 - 4d) r + (2d^2 - 3d + 2) = c (3 - 4d) r + (2d^2 - 3d + 2) for c r >= d: positive for every r when d <= 3/4.
    Radii with c r < d are evaluated on the closed form. If the sufficient condition fails the closed form is searched for an integer radius with y(x) - x >= 2."""
    import math
    rep.rule("K9 midpoint circle: with the loop shape `m = x*x + y*y - y - r*r; if (m > 0) --y` and N = ROUND(r*cos(pi/4)) + k columns per octant, the last point (x, y) "
             "of the octant satisfies y - x <= 1 for every radius (the octants meet at the diagonal): proved from the loop invariant x^2 + (y-1/2)^2 <= r^2 + 1/4 when the "
             "column count is a nearest-integer rounding (d = 1/2 - (k-1) <= 3/4); refuted only with a radius for which the closed form y(x) leaves a gap")
    f0 = (byname.get("midpoint_circle_rasterizer::operator()") or [None])[0]
    pc = (byname.get("midpoint_circle_rasterizer::point_count") or [None])[0]
    if f0 is None or pc is None:
        rep.fail_analysis("midpoint_circle_rasterizer not instantiated")
        return
    from .ir.poly import Poly
    g = R.canonize(f0)
    # ---- step 1: the shape
    rep.count("obligations:K9")
    key = "K9:midpoint_circle_rasterizer::operator():decision variable"
    loops = [lp for lp, _ in R.find(g["body"], lambda x: x.get("k") == "For")]
    shape = None
    why = []
    if len(loops) != 1:
        why.append("%d loops" % len(loops))
    else:
        lp = loops[0]
        init = R.strip(lp["init"])
        xv = init["decls"][0]["name"] if init.get("k") == "Decl" else None
        x0 = R.key(init["decls"][0]["init"]) if xv else None
        cond = R.key(lp["cond"])
        mcond = re.fullmatch(r"\(%s < \((?:this\.)?point_count\(\) / 8\)\)" % re.escape(xv or "?"), cond)
        body = lp["body"].get("c") or []
        ifs = [st for st in body if st.get("k") == "If"]
        yv = mdef = None
        if len(ifs) == 1 and ifs[0].get("else") is None:
            mm = re.fullmatch(r"\((.+) > 0\)", R.key(ifs[0]["cond"]))
            decs = [R.key(x) for x, _ in R.find(ifs[0]["then"], lambda x: x.get("k") == "Unary")]
            if mm and len(decs) == 1 and re.fullmatch(r"\(--(%\d+)\)|\((%\d+)--\)", decs[0]):
                yv = re.sub(r"[()\-]", "", decs[0])
                mname = mm.group(1)
                for dn, _ in R.find(lp["body"], lambda x: x.get("k") == "Decl"):
                    for dd in dn["decls"]:
                        if dd.get("name") == mname and dd.get("init") is not None:
                            mdef = dd["init"]
                if mdef is None and "*" in mname:
                    mdef = ifs[0]["cond"]["l"] if ifs[0]["cond"].get("k") == "Binary" else None
        if not (xv and x0 == "1" and mcond and "(++%s)" % xv in R.key(lp["inc"])):
            why.append("loop is not `for (x = 1; x < point_count()/8; ++x)`: init %s, cond %s" % (x0, cond))
        if yv is None or mdef is None:
            why.append("no `if (m > 0) --y` with a defined m")
        else:
            names = {xv: "X", yv: "Y", "radius": "Rr", "this.radius": "Rr"}
            pm = R.poly_of(mdef, rename=lambda nm: names.get(nm, nm))
            X, Y, Rr = Poly.atom("X"), Poly.atom("Y"), Poly.atom("Rr")
            want = X * X + Y * Y - Y - Rr * Rr
            if pm is None or pm != want:
                why.append("decision variable %s is not x^2 + y^2 - y - r^2" % (R.key(mdef)[:100],))
            yinit = [R.key(dd["init"]) for dn, _ in R.find(g["body"], lambda x: x.get("k") == "Decl") for dd in dn["decls"] if dd.get("name") == yv and dd.get("init") is not None]
            if yinit != ["radius"] and yinit != ["this.radius"]:
                why.append("y starts at %s, not at the radius" % yinit)
            emits = [R.key(c["args"][-1]) for c, _ in R.find(g["body"], lambda x: x.get("k") == "Call" and x.get("op") == "()" and re.fullmatch(r"%\d+", R.key(x["args"][0]) or ""))]
            if emits != ["point_t{0,%s}" % yv, "point_t{%s,%s}" % (xv, yv)]:
                why.append("emitted points %s" % emits)
            # the emission of column x comes after the decision
            order = [st.get("k") for st in body]
            if not why and not (order.index("If") < max(i for i, st in enumerate(body) if st.get("k") in ("Call", "ExprStmt") or R.find(st, lambda x: x.get("k") == "Call" and x.get("op") == "()"))):
                why.append("the point of a column is emitted before its decision")
        if not why:
            shape = True
    if shape:
        rep.ok("K9-octant-joint", key, "m = x^2 + y^2 - y - r^2; if (m > 0) --y; emit(x, y), y from r, x from 1 to point_count()/8 - 1")
    else:
        rep.incon("K9-octant-joint", key, {"unrecognised": why})
        return
    # ---- steps 2, 3: the column count
    rep.count("obligations:K9")
    key = "K9:midpoint_circle_rasterizer::point_count:octant joint"
    rets = [x for x, _ in R.find(pc["body"], lambda x: x.get("k") == "Return")]
    k = R.key(rets[0]["e"]) if rets else ""
    core = r"\((?:this\.)?radius \* cos\(\(pi / 4\)\)\)"
    mode = kk = None
    for pat, md in ((r"\(8 \* \((?:l?l?round|nearbyint|rint)\(%s\) \+ (\d+)\)\)" % core, "nearest"),
                    (r"\(8 \* \(floor\(\(%s \+ 0\.5\)\) \+ (\d+)\)\)" % core, "nearest"),
                    (r"\(8 \* \((?:floor|trunc)\(%s\) \+ (\d+)\)\)" % core, "down"),
                    (r"\(8 \* \(%s \+ (\d+)\)\)" % core, "down"),
                    (r"\(8 \* \(ceil\(%s\) \+ (\d+)\)\)" % core, "up")):
        m = re.fullmatch(pat, k)
        if m:
            mode, kk = md, int(m.group(1))
            break
    if mode is None:
        rep.incon("K9-octant-joint", key, {"point_count": k[:200], "why": "not 8 * (ROUND(radius * cos(pi/4)) + k)"})
        return
    d = {"nearest": 0.5, "down": 1.0, "up": 0.0}[mode] - (kk - 1)
    c = math.sqrt(0.5)

    def isqrt_cf(x, r):
        # closed form of step 2: largest y <= r with 4x^2 + (2y-1)^2 <= 4r^2 + 1
        lim = 4 * r * r + 1 - 4 * x * x
        if lim < 1:
            return None
        t = math.isqrt(lim)
        return min(r, (t + 1) // 2)

    def xlast(r):
        v = r * c
        base = {"nearest": math.floor(v + 0.5), "down": math.floor(v), "up": math.ceil(v)}[mode]
        return base + kk - 1
    proved = (3 - 4 * d) >= 0 and (2 * d * d - 3 * d + 2) > 0
    small = range(0, int(math.ceil(max(d, 0) / c)) + 2)
    bound = 3000 if rep.tier == "thorough" else 400
    rng = small if proved else range(0, bound + 1)
    witness = None
    for r in rng:
        x = xlast(r)
        if x < 0:
            continue
        y = isqrt_cf(x, r)
        if y is not None and y - x >= 2:
            witness = (r, x, y)
            break
    det = {"columns per octant": "ROUND_%s(r*cos(pi/4)) + %d" % (mode, kk), "d": d, "sufficient condition c(3-4d) >= 0 and 2d^2-3d+2 > 0": proved}
    if witness:
        r, x, y = witness
        det["witness"] = "radius %d: the octant ends at (%d,%d), its mirror image is (%d,%d): the pixel on the diagonal is missing, the circle is open" % (r, x, y, y, x)
        rep.violation("K9-octant-joint", key, R.fn_where(pc), det)
    elif proved:
        det["small radii evaluated"] = list(small)
        rep.ok("K9-octant-joint", key, det)
    else:
        rep.incon("K9-octant-joint", key, dict(det, why="sufficient condition fails and no witness up to radius %d" % bound))
