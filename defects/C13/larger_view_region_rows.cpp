// C13 replay: pnm (and jpeg) readers loop over the rows of the destination view, not of the requested region: a view larger than the region receives file rows from
// outside the region (and, past the end of the file, the stale row buffer)
// g++ -std=c++14 -I/repo/include larger_view_region_rows.cpp -ljpeg && ./a.out
#include <boost/gil.hpp>
#include <boost/gil/extension/io/pnm.hpp>
#include <boost/gil/extension/io/jpeg.hpp>
#include <cstdio>
#include <sstream>
namespace gil = boost::gil;
int main()
{
    int bad = 0;
    {
        std::string f("P5\n1 2\n255\n"); f += char(2); f += char(13);
        std::istringstream in(f, std::ios::binary);
        gil::gray8_image_t big(1, 2); gil::fill_pixels(gil::view(big), gil::gray8_pixel_t(90));
        gil::read_view(in, gil::view(big), gil::image_read_settings<gil::pnm_tag>(gil::point_t(0, 0), gil::point_t(1, 1)));
        int r0 = gil::view(big)(0, 0)[0], r1 = gil::view(big)(0, 1)[0];
        std::printf("pnm, region 1x1 into a 1x2 view: rows %d / %d (expected 2 / 90: the second row is outside the region)\n", r0, r1);
        if (r0 != 2 || r1 != 90) ++bad;
    }
    {
        gil::gray8_image_t src(4, 4); for (int y = 0; y < 4; ++y) for (int x = 0; x < 4; ++x) gil::view(src)(x, y) = gil::gray8_pixel_t(y < 2 ? 10 : 240);
        std::stringstream io(std::ios::in | std::ios::out | std::ios::binary);
        gil::write_view(io, gil::const_view(src), gil::image_write_info<gil::jpeg_tag>(100));
        gil::gray8_image_t big(4, 4); gil::fill_pixels(gil::view(big), gil::gray8_pixel_t(90));
        gil::read_view(io, gil::view(big), gil::image_read_settings<gil::jpeg_tag>(gil::point_t(0, 0), gil::point_t(4, 2)));
        int r1 = gil::view(big)(0, 1)[0], r3 = gil::view(big)(0, 3)[0];
        std::printf("jpeg, region 4x2 into a 4x4 view: row 1 = %d, row 3 = %d (expected about 10 and 90)\n", r1, r3);
        if (r3 != 90) ++bad;
    }
    return bad ? 1 : 0;
}
