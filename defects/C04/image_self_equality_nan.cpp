// C04 replay: image == image answers true for one and the same object without comparing pixels; with a NaN channel the per-pixel loop and equal_pixels say false
// g++ -std=c++14 -I/repo/include image_self_equality_nan.cpp && ./a.out
#include <boost/gil.hpp>
#include <cmath>
#include <cstdio>
using namespace boost::gil;
int main()
{
    rgb32f_image_t a(2, 2, rgb32f_pixel_t(0.f, 0.f, 0.f));
    view(a)(1, 1)[0] = std::nanf("");
    bool whole = a == a;
    bool pixels = equal_pixels(const_view(a), const_view(a));
    bool loop = true;
    for (int y = 0; y < 2; ++y) for (int x = 0; x < 2; ++x) if (!(const_view(a)(x, y) == const_view(a)(x, y))) loop = false;
    rgb32f_image_t b(a);
    std::printf("a == a: %d, equal_pixels(a, a): %d, per-pixel loop: %d, a == copy of a: %d\n", whole, pixels, loop, a == b);
    return whole == loop ? 0 : 1;
}
